"""ADT layouts and impl table, taken from rustdoc's JSON output for the same source tree and
feature set the MIR was dumped from (so `#[cfg]`-dependent fields are evaluated by rustc, not by
a home-grown parser).

  Layout.adts[name]  = {'kind': 'struct'|'enum', 'fields': [..]               (struct)
                                                  'variants': [(name, [fields]|n)] (enum)}
  Layout.impls[(file, line, col)] = {'trait': name|None, 'for': type-head, 'methods': [...]}
"""
import json

# std types bpaf's MIR touches; variant order as in std
STD_ADTS = {
    "Option": {"kind": "enum", "variants": [("None", []), ("Some", ["0"])]},
    "Result": {"kind": "enum", "variants": [("Ok", ["0"]), ("Err", ["0"])]},
    "ControlFlow": {"kind": "enum", "variants": [("Continue", ["0"]), ("Break", ["0"])]},
    "Cow": {"kind": "enum", "variants": [("Borrowed", ["0"]), ("Owned", ["0"])]},
    "Ordering": {"kind": "enum", "variants": [("Less", []), ("Equal", []), ("Greater", [])], "discr": [255, 0, 1]},
    "Range": {"kind": "struct", "fields": ["start", "end"]},
    "RangeFrom": {"kind": "struct", "fields": ["start"]},
    "RangeTo": {"kind": "struct", "fields": ["end"]},
    "RangeInclusive": {"kind": "struct", "fields": ["start", "end", "exhausted"]},
    "RangeFull": {"kind": "struct", "fields": []},
    "PhantomData": {"kind": "struct", "fields": []},
    "Bound": {"kind": "enum", "variants": [("Included", ["0"]), ("Excluded", ["0"]), ("Unbounded", [])]},
}


def type_head(t):
    """rustdoc type json -> short head name"""
    if not isinstance(t, dict):
        return str(t)
    if "resolved_path" in t:
        return t["resolved_path"]["path"].split("::")[-1]
    if "generic" in t:
        return "$" + t["generic"]
    if "primitive" in t:
        return t["primitive"]
    if "borrowed_ref" in t:
        return "&" + type_head(t["borrowed_ref"]["type"])
    if "slice" in t:
        return "[" + type_head(t["slice"]) + "]"
    if "array" in t:
        return "[" + type_head(t["array"]["type"]) + ";N]"
    if "tuple" in t:
        return "(" + ",".join(type_head(x) for x in t["tuple"]) + ")"
    if "dyn_trait" in t:
        return "dyn " + "+".join(x["trait"]["path"].split("::")[-1] for x in t["dyn_trait"]["traits"])
    if "qualified_path" in t:
        return "<qpath>::" + t["qualified_path"]["name"]
    if "raw_pointer" in t:
        return "*" + type_head(t["raw_pointer"]["type"])
    if "function_pointer" in t:
        return "fn"
    if "impl_trait" in t:
        return "impl"
    return json.dumps(t)[:40]


class Layout:
    def __init__(self):
        self.adts = dict(STD_ADTS)
        self.impls = {}
        self.fn_generics = {}

    def load(self, path, crate_prefix=""):
        d = json.load(open(path))
        idx = d["index"]
        for k, v in idx.items():
            inner = v["inner"]
            name = v.get("name")
            if "struct" in inner:
                kind = inner["struct"]["kind"]
                if kind == "unit":
                    fields = []
                elif "tuple" in kind:
                    fields = [str(i) for i in range(len(kind["tuple"]))]
                else:
                    if kind["plain"].get("has_stripped_fields"):
                        raise RuntimeError("stripped fields in %s" % name)
                    fields = [idx[str(f)]["name"] for f in kind["plain"]["fields"]]
                self._add(name, {"kind": "struct", "fields": fields, "span": v.get("span")})
            elif "enum" in inner:
                variants = []
                if inner["enum"].get("has_stripped_variants"):
                    raise RuntimeError("stripped variants in %s" % name)
                discr = []
                for vid in inner["enum"]["variants"]:
                    vv = idx[str(vid)]
                    vk = vv["inner"]["variant"]["kind"]
                    if vk == "plain":
                        fl = []
                    elif "tuple" in vk:
                        fl = [str(i) for i in range(len(vk["tuple"]))]
                    else:
                        fl = [idx[str(f)]["name"] for f in vk["struct"]["fields"]]
                    variants.append((vv["name"], fl))
                    dd = vv["inner"]["variant"].get("discriminant")
                    discr.append(int(dd["value"]) if dd else None)
                ent = {"kind": "enum", "variants": variants, "span": v.get("span")}
                if any(x is not None for x in discr):
                    cur = -1
                    out = []
                    for x in discr:
                        cur = x if x is not None else cur + 1
                        out.append(cur)
                    ent["discr"] = out
                self._add(name, ent)
            elif "impl" in inner:
                im = inner["impl"]
                sp = v.get("span")
                if not sp:
                    continue
                methods = []
                for i in im["items"]:
                    it = idx.get(str(i))
                    if it and "function" in it["inner"]:
                        methods.append(it["name"])
                key = (sp["filename"], sp["begin"][0], sp["begin"][1])
                self.impls[key] = {
                    "trait": im["trait"]["path"].split("::")[-1] if im.get("trait") else None,
                    "for": type_head(im["for"]),
                    "methods": methods,
                }

    def _add(self, name, ent):
        if name in self.adts and name not in STD_ADTS:
            old = self.adts[name]
            if old.get("fields") != ent.get("fields") or old.get("variants") != ent.get("variants"):
                # two distinct types with the same short name: keep both under qualified keys
                self.adts.setdefault("__dups__", {}).setdefault(name, [old]).append(ent)
                return
        if name in STD_ADTS:
            self.adts["bpaf::" + name] = ent
            return
        self.adts[name] = ent

    # helpers --------------------------------------------------------------------------------
    def variant_index(self, ty, vname):
        a = self.adts[ty]
        for i, (n, _) in enumerate(a["variants"]):
            if n == vname:
                return i
        raise KeyError("%s::%s" % (ty, vname))

    def field_index(self, ty, variant, fname):
        a = self.adts[ty]
        fl = a["fields"] if a["kind"] == "struct" else a["variants"][variant][1]
        return fl.index(fname)
