"""core::fmt models: `format_args!` lowering of the pinned nightly (Arguments::new::<N, M>(template,
args), template bytes as documented in library/core/src/fmt/mod.rs), fmt::write, Formatter sinks.

Literal pieces and arguments are written to the real sink in order, arguments are formatted by
dispatching `Display::fmt` / `Debug::fmt` on the dynamic type (user impls are executed from MIR).
Token-layer strings (interned ids) have no text: they are rendered as the placeholder SYM_PLACEHOLDER
- checks that look at rendered text use the text layer (BStr) instead.
"""
import z3

from .values import *
from .engine import Unmodelled, ExecError, Panic, parse_callee, type_head
from .models import MODELS, NONE, SOME, OK, ERR, rd, rda, wr, sub, as_ref, to_bstr

SYM_PLACEHOLDER = "⟨sym⟩"
FMT_MODELS = {}
FMT_OK = OK(UNIT)


def fmodel(*keys):
    def deco(fn):
        for k in keys:
            FMT_MODELS[k] = fn
        return fn
    return deco


def sink_of(ex, out):
    """normalise a `&mut impl Write` / `&mut Formatter` into ('str', ref) | ('adt', ref)"""
    r = out
    while True:
        v = rd(r) if type(r) is Ref else r
        if type(v) is Ref:
            r = v
            continue
        if type(v) is Opaque and v.tag == "formatter":
            r = v.payload[0]
            continue
        break
    return r, v


def is_rope(v):
    return type(v) is Opaque and v.tag == "rope"


def is_atom(v):
    return type(v) is Opaque and v.tag == "atom"


def rope_parts(v):
    """parts of a string-like value: literal text (str / BStr) and segments"""
    if is_rope(v):
        return v.payload[0]
    if is_atom(v):
        return (("seg", "raw", v.payload[0], None),)
    if type(v) is tuple and v and v[0] == "seg":
        return (v,)
    if type(v) is str:
        return (v,) if v else ()
    if type(v) is BStr:
        return (v,) if v.b else ()
    raise ExecError("not string-like: %r" % (v,))


def mk_rope(parts):
    out = []
    for p in parts:
        if type(p) is str and out and type(out[-1]) is str:
            out[-1] = out[-1] + p
        else:
            out.append(p)
    if all(type(p) is str for p in out):
        return "".join(out)
    return Opaque("rope", (tuple(out),))


def sink_write(ex, out, s):
    r, v = sink_of(ex, out)
    if type(s) is SymStr:
        s = SYM_PLACEHOLDER
    if is_rope(v) or is_rope(s) or is_atom(s) or (type(s) is tuple and s and s[0] == "seg"):
        if type(v) in (str, BStr) or is_rope(v):
            wr(r, mk_rope(rope_parts(v) + rope_parts(s)))
            return True
    if type(v) is str and type(s) is str:
        wr(r, v + s)
    elif type(v) in (str, BStr) and type(s) in (str, BStr):
        wr(r, BStr(to_bstr(v).b + to_bstr(s).b))
    elif type(v) is Seq and type(s) in (str, BStr):  # Vec<u8> as io::Write
        wr(r, Seq(v.items + tuple(to_bstr(s).b)))
    elif type(v) is Adt:
        f = ex.prog.by_trait.get(("Write", v.ty, "write_str"))
        if f is None:
            raise Unmodelled("fmt::Write sink %s" % v.ty)
        res = ex.exec_fn(f, [r, s])
        if res.var == 1:
            return False
    elif type(v) is Opaque and v.tag == "recorder":
        v.payload[0].append(s)
    else:
        raise Unmodelled("write to sink %r" % (v,))
    return True


def mk_formatter(out):
    return Ref(Cell(Opaque("formatter", (out,)), "formatter"), ())


def decode_template(t):
    """bytes -> list of ('lit', str) | ('arg', index or None, opts)"""
    out = []
    i = 0
    n = len(t)
    while i < n:
        b = t[i]
        i += 1
        if b == 0:
            break
        if b < 0x80:
            out.append(("lit", bytes(t[i:i + b]).decode("utf-8")))
            i += b
        elif b == 0x80:
            ln = t[i] | (t[i + 1] << 8)
            i += 2
            out.append(("lit", bytes(t[i:i + ln]).decode("utf-8")))
            i += ln
        elif b == 0xC0:
            out.append(("arg", None, None))
        else:
            opts = {}
            if b & 1:
                opts["flags"] = int.from_bytes(bytes(t[i:i + 4]), "little")
                i += 4
            if b & 2:
                opts["width"] = t[i] | (t[i + 1] << 8)
                i += 2
            if b & 4:
                opts["precision"] = t[i] | (t[i + 1] << 8)
                i += 2
            idx = None
            if b & 8:
                idx = t[i] | (t[i + 1] << 8)
                i += 2
            if b & 16:
                opts["dyn_width"] = True
            if b & 32:
                opts["dyn_precision"] = True
            out.append(("arg", idx, opts))
    return out


@fmodel("Argument::new_display", "Argument::new_debug", "Argument::new_lower_hex", "Argument::new_upper_hex", "Argument::from_usize",
        "Argument::new_debug_noop")
def m_argument(ex, c, args):
    return Opaque("fmtarg", (c.method, (c.generics or "").strip(), args[0]))


@fmodel("Arguments::new", "Arguments::new_const", "Arguments::new_v1", "Arguments::from_str", "Arguments::from_str_nonconst")
def m_arguments(ex, c, args):
    if c.method in ("from_str", "from_str_nonconst", "new_const"):
        s = rda(args[0])
        if type(s) is Seq:  # new_const(&[&str;1])
            s = "".join(rda(x) for x in s.items)
        return Opaque("fmtargs", ([("lit", s)], ()))
    t = rda(args[0])
    tb = t.b if type(t) is BStr else tuple(t.items)
    a = rda(args[1]) if len(args) > 1 else Seq(())
    return Opaque("fmtargs", (decode_template(tb), tuple(a.items)))


def width_pad(s, opts):
    """apply {:<width} style padding for concrete strings (default: left aligned for strings)"""
    if not opts or "width" not in opts:
        return s
    w = opts["width"]
    flags = opts.get("flags", 0)
    if isinstance(s, str):
        n = len(s)
        if n >= w:
            return s
        fill = chr(flags & 0x1FFFFF) if flags & 0x1FFFFF else " "
        align = (flags >> 29) & 3
        if align == 1:  # right
            return fill * (w - n) + s
        if align == 2:  # center
            l = (w - n) // 2
            return fill * l + s + fill * (w - n - l)
        return s + fill * (w - n)
    raise Unmodelled("width formatting of a symbolic string")


def fmt_value(ex, out, kind, ty, v, opts=None):
    """Display/Debug of value v (a reference) into sink `out`; returns False on fmt::Error"""
    val = rda(v)
    t = type(val)
    debug = kind == "new_debug"
    if opts and ("dyn_width" in opts or "dyn_precision" in opts or "precision" in opts):
        raise Unmodelled("dynamic width / precision in format string")
    if t is Adt and val.ty == "Cow":
        return fmt_value(ex, out, kind, "str", val.fields[0], opts)
    if is_atom(val):
        return sink_write(ex, out, ("seg", "raw", val.payload[0], opts))
    if is_rope(val):
        if opts and "width" in opts:
            return sink_write(ex, out, ("seg", "raw-rope", val.payload[0], opts))
        return sink_write(ex, out, val)
    if t is Adt and val.ty == "Shell":
        inner = rda(val.fields[0])
        if type(inner) is Adt and inner.ty == "Cow":
            inner = rda(inner.fields[0])
        if is_atom(inner):
            return sink_write(ex, out, ("seg", "quoted", inner.payload[0], None))
        if is_rope(inner):
            return sink_write(ex, out, ("seg", "quoted-rope", inner.payload[0], None))
    if t in (str, BStr, SymStr):
        if debug:
            if t is str:
                return sink_write(ex, out, '"' + val.replace("\\", "\\\\").replace('"', '\\"') + '"')
            raise Unmodelled("Debug of a symbolic string")
        if t is str:
            return sink_write(ex, out, width_pad(val, opts))
        if opts and "width" in opts:
            raise Unmodelled("width formatting of a symbolic string")
        return sink_write(ex, out, val)
    th = type_head(ty) if ty else ""
    if t is int or t is bool:
        if th == "char":
            if debug:
                raise Unmodelled("Debug of char")
            return sink_write(ex, out, width_pad(chr(val), opts))
        if t is bool:
            return sink_write(ex, out, width_pad("true" if val else "false", opts))
        return sink_write(ex, out, width_pad(str(val), opts))
    if is_sym(val):
        if th == "char":
            hook = getattr(ex, "fmt_sym_char", None)
            if hook:
                return sink_write(ex, out, hook(ex, val))
            return sink_write(ex, out, SYM_PLACEHOLDER)
        return sink_write(ex, out, SYM_PLACEHOLDER)
    if t is Adt:
        tr = "Debug" if debug else "Display"
        f = ex.prog.by_trait.get((tr, val.ty, "fmt"))
        if f is not None and not debug:
            from .models import as_base
            res = ex.exec_fn(f, [as_base(v) if type(v) is Ref else as_ref(val), mk_formatter(out)])
            return res.var == 0
        if debug:
            hook = getattr(ex, "debug_repr", None)
            return sink_write(ex, out, hook(v) if hook else "<%s:?>" % val.ty)
        m = ex.models.get(val.ty + " as Display::fmt")
        if m is not None:
            res = m(ex, None, [v, mk_formatter(out)])
            return res.var == 0
        raise Unmodelled("Display for %s" % val.ty)
    if t is Opaque:
        return sink_write(ex, out, "<%s>" % val.tag)
    if t is tuple or t is Seq:
        if debug:
            return sink_write(ex, out, "<dbg>")
    raise Unmodelled("format of %r (%s %s)" % (val, kind, ty))


def do_write(ex, out, fa):
    if not (type(fa) is Opaque and fa.tag == "fmtargs"):
        raise ExecError("write_fmt with %r" % (fa,))
    pieces, args = fa.payload
    ai = 0
    for p in pieces:
        if p[0] == "lit":
            if not sink_write(ex, out, p[1]):
                return ERR(UNIT)
        else:
            idx = p[1] if p[1] is not None else ai
            a = args[idx]
            ai = idx + 1
            kind, ty, v = a.payload
            if not fmt_value(ex, out, kind, ty, v, p[2]):
                return ERR(UNIT)
    return FMT_OK


@fmodel("Write::write_fmt", "fmt::write", "Formatter::write_fmt", "String::write_fmt")
def m_write_fmt(ex, c, args):
    return do_write(ex, args[0], args[1])


@fmodel("fmt::format", "format")
def m_format(ex, c, args):
    cell = Cell("", "fmtbuf")
    do_write(ex, Ref(cell, ()), args[0])
    return cell.v


@fmodel("Formatter::write_str", "Write::write_str")
def m_write_str(ex, c, args):
    return FMT_OK if sink_write(ex, args[0], rda(args[1])) else ERR(UNIT)


@fmodel("Formatter::write_char", "Write::write_char")
def m_write_char(ex, c, args):
    ch = args[1]
    if isinstance(ch, int):
        return FMT_OK if sink_write(ex, args[0], chr(ch)) else ERR(UNIT)
    hook = getattr(ex, "fmt_sym_char", None)
    return FMT_OK if sink_write(ex, args[0], hook(ex, ch) if hook else SYM_PLACEHOLDER) else ERR(UNIT)


@fmodel("Formatter::pad")
def m_pad(ex, c, args):
    return FMT_OK if sink_write(ex, args[0], rda(args[1])) else ERR(UNIT)


@fmodel("Display::fmt", "Debug::fmt")
def m_display_fmt(ex, c, args):
    """explicit `<T as Display>::fmt(&x, f)` calls on std types"""
    kind = "new_debug" if c.trait == "Debug" else "new_display"
    return FMT_OK if fmt_value(ex, args[1], kind, c.selfty, args[0]) else ERR(UNIT)


@fmodel("Formatter::debug_tuple_field1_finish", "Formatter::debug_tuple_field2_finish", "Formatter::debug_tuple_field3_finish",
        "Formatter::debug_struct_field1_finish", "Formatter::debug_struct_field2_finish", "Formatter::debug_struct_field3_finish",
        "Formatter::debug_struct_field4_finish", "Formatter::debug_struct_field5_finish", "Formatter::debug_struct_fields_finish",
        "Formatter::debug_tuple_fields_finish")
def m_debug_finish(ex, c, args):
    name = rda(args[1])
    return FMT_OK if sink_write(ex, args[0], "<%s:?>" % name) else ERR(UNIT)


@fmodel("ToString::to_string")
def m_to_string(ex, c, args):
    v = rda(args[0])
    if type(v) in (str, SymStr, BStr):
        return v
    if type(v) is int and (c.selfty or "").strip() == "char":
        return chr(v)
    cell = Cell("", "tostring")
    if not fmt_value(ex, Ref(cell, ()), "new_display", c.selfty, args[0]):
        raise Panic("a Display implementation returned an error unexpectedly")
    return cell.v


@fmodel("hint::must_use", "must_use")
def m_must_use(ex, c, args):
    return args[0]


@fmodel("io::_print", "io::_eprint", "stdio::_print", "stdio::_eprint")
def m_print(ex, c, args):
    cell = Cell("", "printbuf")
    do_write(ex, Ref(cell, ()), args[0])
    ex.notes.append(("print", "stderr" if "eprint" in c.method else "stdout", cell.v))
    return UNIT


@fmodel("char::encode_utf8")
def m_encode_utf8(ex, c, args):
    ch = args[0]
    if isinstance(ch, int):
        return chr(ch)
    hook = getattr(ex, "fmt_sym_char", None)
    return hook(ex, ch) if hook else SYM_PLACEHOLDER
