"""Regenerate everything the checks need from /repo's *current working tree*:

  scratch/bpaf            copy of /repo (no target/, no .git)
  scratch/harness         copy of /verif/harness (path dependency on ../bpaf)
  scratch/out/bpaf.<fs>.mir  / bpaf.<fs>.json        MIR + rustdoc JSON of bpaf per feature set
  scratch/out/vharness.<fs>.mir / vharness.<fs>.json same for the grammar corpus
  scratch/out/replay.<fs>  native replay binary (stable toolchain, dev profile)

The scratch directory lives outside /repo and /verif and is removed by the caller.
"""
import hashlib
import json
import os
import shutil
import subprocess
import sys
import time

REPO = os.environ.get("VERIF_REPO", "/repo")
VERIF = os.path.dirname(os.path.dirname(os.path.abspath(__file__)))

FEATURE_SETS = {
    "none": [],
    "full": ["autocomplete", "docgen", "batteries"],
    "derive": ["derive"],
}
HARNESS_FEATURES = {"none": [], "full": ["full"], "derive": ["derive"]}

ENV = dict(os.environ)
ENV["CARGO_NET_OFFLINE"] = "true"
ENV.pop("RUSTFLAGS", None)


class BuildError(Exception):
    pass


def run(cmd, cwd, env=None, capture_stdout_to=None, timeout=1800):
    e = dict(ENV)
    if env:
        e.update(env)
    t = time.time()
    if capture_stdout_to:
        with open(capture_stdout_to, "wb") as out:
            p = subprocess.run(cmd, cwd=cwd, env=e, stdout=out, stderr=subprocess.PIPE, timeout=timeout)
    else:
        p = subprocess.run(cmd, cwd=cwd, env=e, stdout=subprocess.PIPE, stderr=subprocess.PIPE, timeout=timeout)
    if p.returncode != 0:
        raise BuildError("command failed (%d): %s\n%s" % (p.returncode, " ".join(cmd), p.stderr.decode("utf-8", "replace")[-4000:]))
    return time.time() - t


def copy_tree(src, dst, exclude=("target", ".git")):
    if os.path.exists(dst):
        shutil.rmtree(dst)
    subprocess.check_call(["rsync", "-a"] + ["--exclude=%s" % x for x in exclude] + [src.rstrip("/") + "/", dst + "/"])


def tree_hash(path):
    h = hashlib.sha256()
    for root, dirs, files in os.walk(path):
        dirs.sort()
        if "target" in dirs:
            dirs.remove("target")
        for f in sorted(files):
            if f.endswith(".rs") or f == "Cargo.toml":
                p = os.path.join(root, f)
                h.update(p[len(path):].encode())
                h.update(open(p, "rb").read())
    return h.hexdigest()[:16]


def mir_dump(crate_dir, out, target_dir, features, extra=()):
    # touching the root file forces rustc to run again (otherwise the dump is empty)
    root = os.path.join(crate_dir, "src", "lib.rs")
    os.utime(root, None)
    cmd = ["cargo", "+nightly", "rustc", "--lib"]
    if features:
        cmd += ["--features", ",".join(features)]
    cmd += ["--", "-Zunpretty=mir", "-Zmir-opt-level=0", "-C", "overflow-checks=on", "-C", "debug-assertions=off", "-Awarnings"]
    cmd += list(extra)
    return run(cmd, crate_dir, {"CARGO_TARGET_DIR": target_dir}, capture_stdout_to=out)


def doc_json(crate_dir, crate_name, out, target_dir, features):
    cmd = ["cargo", "+nightly", "rustdoc", "--lib"]
    if features:
        cmd += ["--features", ",".join(features)]
    cmd += ["--", "-Zunstable-options", "--output-format", "json", "--document-private-items", "--document-hidden-items", "-Awarnings"]
    t = run(cmd, crate_dir, {"CARGO_TARGET_DIR": target_dir})
    shutil.copy(os.path.join(target_dir, "doc", crate_name + ".json"), out)
    return t


def build(scratch, feature_sets=("none",), with_replay=True, harness=True, log=None):
    """returns dict with paths and timings"""
    t0 = time.time()
    os.makedirs(scratch, exist_ok=True)
    out = os.path.join(scratch, "out")
    os.makedirs(out, exist_ok=True)
    bpaf = os.path.join(scratch, "bpaf")
    copy_tree(REPO, bpaf)
    hdir = os.path.join(scratch, "harness")
    if harness:
        copy_tree(os.path.join(VERIF, "harness"), hdir)
        lock = os.path.join(bpaf, "Cargo.lock")
    info = {"scratch": scratch, "out": out, "sets": {}, "timings": {}, "repo_hash": tree_hash(os.path.join(bpaf, "src"))}
    for fs in feature_sets:
        feats = FEATURE_SETS[fs]
        tdir = os.path.join(scratch, "tgt-" + fs)
        ent = {}
        ent["bpaf_mir"] = os.path.join(out, "bpaf.%s.mir" % fs)
        ent["bpaf_json"] = os.path.join(out, "bpaf.%s.json" % fs)
        info["timings"]["bpaf_mir_" + fs] = mir_dump(bpaf, ent["bpaf_mir"], tdir, feats)
        info["timings"]["bpaf_doc_" + fs] = doc_json(bpaf, "bpaf", ent["bpaf_json"], tdir, feats)
        if harness:
            hf = HARNESS_FEATURES[fs]
            ent["h_mir"] = os.path.join(out, "vharness.%s.mir" % fs)
            ent["h_json"] = os.path.join(out, "vharness.%s.json" % fs)
            info["timings"]["h_mir_" + fs] = mir_dump(hdir, ent["h_mir"], tdir + "-h", hf)
            info["timings"]["h_doc_" + fs] = doc_json(hdir, "vharness", ent["h_json"], tdir + "-h", hf)
            if with_replay:
                cmd = ["cargo", "build", "--offline", "--bin", "replay"]
                if hf:
                    cmd += ["--features", ",".join(hf)]
                info["timings"]["replay_" + fs] = run(cmd, hdir, {"CARGO_TARGET_DIR": tdir + "-r", "RUSTFLAGS": "-Awarnings"})
                ent["replay"] = os.path.join(out, "replay." + fs)
                shutil.copy(os.path.join(tdir + "-r", "debug", "replay"), ent["replay"])
                # every corpus grammar must be inside the properties' quantifier ("passes check_invariants")
                import subprocess
                p = subprocess.run([ent["replay"], "--check-invariants"], stdout=subprocess.PIPE, stderr=subprocess.PIPE, timeout=120)
                if b"invariants ok" not in p.stdout:
                    raise RuntimeError("a corpus grammar fails check_invariants:\n" + p.stderr.decode("utf-8", "replace")[-1500:])
        info["sets"][fs] = ent
    info["timings"]["total"] = time.time() - t0
    with open(os.path.join(out, "build.json"), "w") as f:
        json.dump(info, f, indent=1)
    return info


if __name__ == "__main__":
    sc = sys.argv[1]
    sets = sys.argv[2].split(",") if len(sys.argv) > 2 else ["none"]
    i = build(sc, sets)
    print(json.dumps(i["timings"], indent=1))
