"""Parser for rustc's `-Zunpretty=mir` text (nightly pinned in this image).

Strict by design: anything that is not recognised raises MirSyntax, so that a
format change turns into an *inconclusive* run instead of a silently wrong
encoding.  The output is a dict  name -> Function  with pre-parsed places,
operands, rvalues and terminators (plain tuples, cheap to interpret).

Grammar actually produced by this nightly for bpaf + harness crates:

  place   := _N | (*place) | (place.N: TYPE) | (place as Variant)
           | place[_N] | place[N of M] | place[-N of M] | place[A:B] | place[A:-B]
           | (place as subtype TYPE)
  operand := copy place | move place | const CONST
  rvalue  := operand | &place | &mut place | &raw const|mut place | &fake shallow place
           | no_retag copy place
           | discriminant(place) | Len(place) | PtrMetadata(op)
           | BinOp(op, op) | UnOp(op) | op as TYPE (CastKind)
           | [op, ..] | [op; N] | (op, ..) | PATH(op, ..) | PATH { f: op, .. } | PATH
           | {closure@..} { cap: op, .. } | {closure@..}
"""
import re


class MirSyntax(Exception):
    pass


BINOPS = {
    "Add", "Sub", "Mul", "Div", "Rem", "BitXor", "BitAnd", "BitOr", "Shl", "Shr",
    "Eq", "Lt", "Le", "Ne", "Ge", "Gt", "Cmp", "Offset",
    "AddWithOverflow", "SubWithOverflow", "MulWithOverflow",
    "AddUnchecked", "SubUnchecked", "MulUnchecked", "ShlUnchecked", "ShrUnchecked",
}
UNOPS = {"Not", "Neg", "PtrMetadata"}


class Function:
    __slots__ = ("name", "kind", "args", "ret", "locals", "blocks", "span", "debug", "src", "nlocals", "captures")

    def __init__(self, name, kind):
        self.name = name
        self.kind = kind  # 'fn' | 'const' | 'promoted' | 'static'
        self.args = []  # [(local, type)]
        self.ret = None
        self.locals = {}  # local number -> type string
        self.blocks = {}  # bb number -> (stmts, terminator)
        self.debug = {}
        self.captures = []
        self.src = None  # (first_line, last_line) in dump

    def __repr__(self):
        return "<mir fn %s>" % self.name


# ----------------------------------------------------------------------------------------
# low level scanning helpers

OPEN = "([{<"
CLOSE = ")]}>"
MATCH = {"(": ")", "[": "]", "{": "}", "<": ">"}


def scan_balanced(s, i, stops):
    """Scan from i until one of the stop characters is seen at nesting depth 0.
    Understands string / char / byte-string literals and `->`.  Returns index of stop (or len)."""
    depth = []
    n = len(s)
    while i < n:
        c = s[i]
        if not depth and c in stops:
            return i
        if c == '"':
            i = skip_string(s, i)
            continue
        if c == "'" :
            j = skip_char_or_lifetime(s, i)
            i = j
            continue
        if c == "-" and i + 1 < n and s[i + 1] == ">":
            i += 2
            continue
        if c == "=" and i + 1 < n and s[i + 1] == ">":
            i += 2
            continue
        if c in "([{":
            depth.append(c)
        elif c == "<":
            # '<' is a bracket in types; comparison operators never occur in MIR text
            depth.append(c)
        elif c in ")]}":
            # pop through any unmatched '<' (should not happen)
            while depth and depth[-1] == "<":
                depth.pop()
            if not depth:
                return i
            depth.pop()
        elif c == ">":
            if depth and depth[-1] == "<":
                depth.pop()
            elif not depth and ">" in stops:
                return i
        i += 1
    return n


def skip_string(s, i):
    assert s[i] == '"'
    i += 1
    n = len(s)
    while i < n:
        if s[i] == "\\":
            i += 2
            continue
        if s[i] == '"':
            return i + 1
        i += 1
    raise MirSyntax("unterminated string in %r" % s)


def skip_char_or_lifetime(s, i):
    # 'a' | '\n' | '\u{..}' | '\'' | lifetime 'a / '_ / 'static
    assert s[i] == "'"
    n = len(s)
    if i + 1 < n and s[i + 1] == "\\":
        j = i + 2
        while j < n and s[j] != "'":
            j += 1
        # handle '\'' : the quote right after backslash is escaped
        if s[i + 2] == "'" :
            j = i + 3
        return j + 1
    # char literal of a single (possibly multibyte) char
    if i + 2 < n and s[i + 2] == "'":
        return i + 3
    # lifetime
    j = i + 1
    while j < n and (s[j].isalnum() or s[j] == "_"):
        j += 1
    return j


def split_top(s, sep=","):
    """split s on sep at nesting depth 0"""
    out = []
    i = 0
    start = 0
    n = len(s)
    while i <= n:
        j = scan_balanced(s, i, sep)
        if j >= n:
            out.append(s[start:].strip())
            break
        if s[j] == sep:
            out.append(s[start:j].strip())
            start = j + 1
            i = j + 1
        else:
            # unmatched closer: treat as ordinary char
            i = j + 1
    if out and out[-1] == "" and len(out) > 0 and s.strip().endswith(sep):
        out.pop()
    return [x for x in out] if s.strip() else []


# ----------------------------------------------------------------------------------------
# places

_re_local = re.compile(r"_(\d+)")


def parse_place(s):
    """returns (local, projections tuple).  projection elements:
       ('deref',) ('field', n, type) ('downcast', name) ('index', local)
       ('constidx', n, min_len, from_end) ('subslice', a, b, from_end) ('subtype', ty)"""
    s = s.strip()
    loc, proj, i = _place(s, 0)
    if i != len(s):
        raise MirSyntax("trailing text in place %r at %d" % (s, i))
    return (loc, tuple(proj))


def _place(s, i):
    n = len(s)
    if s[i] == "_":
        m = _re_local.match(s, i)
        if not m:
            raise MirSyntax("bad local in %r" % s)
        loc = int(m.group(1))
        proj = []
        i = m.end()
    elif s[i] == "(":
        if s[i + 1] == "*":
            loc, proj, i = _place(s, i + 2)
            if s[i] != ")":
                raise MirSyntax("expected ) after deref in %r" % s)
            proj = proj + [("deref",)]
            i += 1
        else:
            loc, proj, i = _place(s, i + 1)
            if s[i] == ".":
                m = re.compile(r"\.(\d+): ").match(s, i)
                if not m:
                    raise MirSyntax("bad field projection in %r" % s)
                j = scan_balanced(s, m.end(), ")")
                ty = s[m.end():j]
                proj = proj + [("field", int(m.group(1)), ty)]
                i = j + 1
            elif s.startswith(" as subtype ", i):
                j = scan_balanced(s, i + 12, ")")
                proj = proj + [("subtype", s[i + 12:j])]
                i = j + 1
            elif s.startswith(" as ", i):
                j = s.index(")", i)
                proj = proj + [("downcast", s[i + 4:j])]
                i = j + 1
            else:
                raise MirSyntax("bad parenthesised place %r at %d" % (s, i))
    else:
        raise MirSyntax("bad place %r" % s)
    # postfix [..]
    while i < n and s[i] == "[":
        j = s.index("]", i)
        inner = s[i + 1:j]
        m = _re_local.fullmatch(inner)
        if m:
            proj = proj + [("index", int(m.group(1)))]
        elif " of " in inner:
            a, b = inner.split(" of ")
            a = int(a)
            proj = proj + [("constidx", abs(a), int(b), a < 0)]
        elif ":" in inner:
            a, b = inner.split(":")
            a = int(a) if a else 0
            from_end = b.startswith("-")
            b = int(b) if b else 0
            proj = proj + [("subslice", a, abs(b), from_end)]
        else:
            raise MirSyntax("bad index projection %r" % s)
        i = j + 1
    return loc, proj, i


# ----------------------------------------------------------------------------------------
# constants

_re_int = re.compile(r"(-?\d+)_(usize|isize|u8|u16|u32|u64|u128|i8|i16|i32|i64|i128)$")
_re_float = re.compile(r"(-?[\d.eE+-]+)(f32|f64)$")


def unescape(body, bytes_mode=False):
    out = []
    i = 0
    n = len(body)
    while i < n:
        c = body[i]
        if c != "\\":
            out.append(c)
            i += 1
            continue
        d = body[i + 1]
        if d == "n":
            out.append("\n"); i += 2
        elif d == "t":
            out.append("\t"); i += 2
        elif d == "r":
            out.append("\r"); i += 2
        elif d == "0":
            out.append("\0"); i += 2
        elif d in "\\'\"":
            out.append(d); i += 2
        elif d == "x":
            out.append(chr(int(body[i + 2:i + 4], 16))); i += 4
        elif d == "u":
            j = body.index("}", i)
            out.append(chr(int(body[i + 3:j], 16))); i = j + 1
        elif d == "\n":
            i += 2
            while i < n and body[i] in " \t\n":
                i += 1
        else:
            raise MirSyntax("bad escape in %r" % body)
    return "".join(out)


def parse_const(s):
    """returns ('int', value, ty) | ('bool', b) | ('char', codepoint) | ('str', text)
       | ('bytes', bytes) | ('unit',) | ('path', text)   (path = fn item, ZST, named const ...)"""
    s = s.strip()
    if s == "true":
        return ("bool", True)
    if s == "false":
        return ("bool", False)
    if s == "()":
        return ("unit",)
    m = _re_int.match(s)
    if m:
        return ("int", int(m.group(1)), m.group(2))
    if s.startswith('"'):
        e = skip_string(s, 0)
        if e != len(s):
            raise MirSyntax("trailing after string const %r" % s)
        return ("str", unescape(s[1:-1]))
    if s.startswith('b"'):
        e = skip_string(s, 1)
        if e != len(s):
            raise MirSyntax("trailing after bytes const %r" % s)
        return ("bytes", bytes(ord(c) for c in unescape(s[2:-1])))
    if s.startswith("'"):
        body = s[1:-1]
        t = unescape(body)
        if len(t) != 1:
            raise MirSyntax("bad char const %r" % s)
        return ("char", ord(t))
    if s.startswith("b'"):
        t = unescape(s[2:-1])
        return ("int", ord(t), "u8")
    m = _re_float.match(s)
    if m:
        return ("float", float(m.group(1)), m.group(2))
    return ("path", s)


# ----------------------------------------------------------------------------------------
# operands and rvalues

def parse_operand(s):
    s = s.strip()
    if s.startswith("copy "):
        return ("copy", parse_place(s[5:]))
    if s.startswith("move "):
        return ("move", parse_place(s[5:]))
    if s.startswith("const "):
        return ("const", parse_const(s[6:]))
    if s.startswith("no_retag copy "):
        # copy of a pointer-like value (reference / Box) made only to reach the pointee
        return ("nrcopy", parse_place(s[14:]))
    if re.match(r"^[A-Za-z_<]", s) and not re.match(r"^_\d+", s):
        # bare fn item / ZST constant used as an operand (printed without `const`)
        return ("const", ("path", s))
    raise MirSyntax("bad operand %r" % s)


_re_cast = re.compile(r"^(.*) as (.*) \(([A-Za-z]+(?:\([A-Za-z, ]*\))?)\)$")
_re_call_head = re.compile(r"^([A-Za-z]+)\(")


def parse_rvalue(s):
    s = s.strip()
    if s.startswith(("copy ", "move ", "const ", "no_retag copy ")):
        # could be a cast:  `move _5 as T (Kind)`
        m = _re_cast.match(s)
        if m and scan_balanced(s, 0, " ") < len(s):
            # make sure ' as ' is at top level: operand part must parse
            try:
                op = parse_operand(m.group(1))
                return ("cast", op, m.group(2), m.group(3))
            except MirSyntax:
                pass
        return ("use", parse_operand(s))
    if s.startswith("&raw const "):
        return ("ref", "raw", parse_place(s[11:]))
    if s.startswith("&raw mut "):
        return ("ref", "rawmut", parse_place(s[9:]))
    if s.startswith("&fake shallow "):
        return ("ref", "shared", parse_place(s[14:]))
    if s.startswith("&mut "):
        return ("ref", "mut", parse_place(s[5:]))
    if s.startswith("&"):
        return ("ref", "shared", parse_place(s[1:]))
    if s.startswith("discriminant("):
        return ("discr", parse_place(s[13:-1]))
    if s.startswith("Len("):
        return ("len", parse_place(s[4:-1]))
    m = _re_call_head.match(s)
    if m and s.endswith(")"):
        head = m.group(1)
        inner = s[len(head) + 1:-1]
        if head in BINOPS:
            a, b = split_top(inner)
            return ("binop", head, parse_operand(a), parse_operand(b))
        if head in UNOPS:
            return ("unop", head, parse_operand(inner))
    if s.startswith("["):
        inner = s[1:-1]
        parts = split_top(inner, ";")
        if len(parts) == 2:
            return ("repeat", parse_operand(parts[0]), parts[1].strip())
        return ("array", tuple(parse_operand(x) for x in split_top(inner)))
    if s.startswith("("):
        j = scan_balanced(s, 1, ")")
        if j == len(s) - 1:
            inner = s[1:-1]
            parts = split_top(inner)
            return ("tuple", tuple(parse_operand(x) for x in parts))
        raise MirSyntax("bad tuple rvalue %r" % s)
    if s.startswith("{closure@") or s.startswith("{coroutine@"):
        j = scan_balanced(s, 1, "}")
        name = s[:j + 1]
        rest = s[j + 1:].strip()
        caps = []
        if rest:
            if not (rest.startswith("{") and rest.endswith("}")):
                raise MirSyntax("bad closure aggregate %r" % s)
            for part in split_top(rest[1:-1]):
                k, v = part.split(": ", 1)
                caps.append((k.strip(), parse_operand(v)))
        return ("closure", name, tuple(caps))
    # ADT aggregate:  PATH | PATH(op, ..) | PATH { f: op, .. }
    j = scan_balanced(s, 0, "({")
    # note: scan_balanced treats '<' as bracket so generic args are skipped
    path = s[:j].strip()
    rest = s[j:].strip()
    if not path or not re.match(r"^[A-Za-z_<\[(&*]", path):
        raise MirSyntax("unrecognised rvalue %r" % s)
    if not rest:
        return ("adt", path, None, ())
    if rest.startswith("(") and rest.endswith(")"):
        return ("adt", path, None, tuple(parse_operand(x) for x in split_top(rest[1:-1])))
    if rest.startswith("{") and rest.endswith("}"):
        names = []
        ops = []
        for part in split_top(rest[1:-1]):
            k, v = part.split(": ", 1)
            names.append(k.strip())
            ops.append(parse_operand(v))
        return ("adt", path, tuple(names), tuple(ops))
    raise MirSyntax("unrecognised rvalue %r" % s)


# ----------------------------------------------------------------------------------------
# statements / terminators

_re_targets = re.compile(r"(-?\d+|otherwise|return|success|unwind|drop|resume): (bb\d+|continue|unreachable|terminate\([a-z]+\))|unwind (continue|unreachable|terminate\([a-z]+\))")


def parse_targets(s):
    """'[return: bb1, unwind continue]' -> dict"""
    s = s.strip()
    if s.startswith("bb"):
        return {"goto": int(s[2:])}
    if s.startswith("unwind"):
        return {"unwind": s[7:]}
    if not (s.startswith("[") and s.endswith("]")):
        raise MirSyntax("bad targets %r" % s)
    out = {}
    for part in split_top(s[1:-1]):
        if part.startswith("unwind "):
            out["unwind"] = part[7:]
            continue
        k, v = part.split(": ")
        out[k] = int(v[2:]) if v.startswith("bb") else v
    return out


def parse_terminator(line):
    s = line.strip().rstrip(";")
    if s == "return":
        return ("return",)
    if s == "unreachable":
        return ("unreachable",)
    if s.startswith("resume") or s.startswith("terminate") or s == "abort":
        return ("resume",)
    if s.startswith("goto -> "):
        return ("goto", int(s[8:].strip()[2:]))
    if s.startswith("switchInt("):
        j = scan_balanced(s, 10, ")")
        op = parse_operand(s[10:j])
        rest = s[j + 1:].strip()
        assert rest.startswith("-> ")
        t = parse_targets(rest[3:])
        cases = tuple((int(k), v) for k, v in t.items() if k != "otherwise")
        return ("switch", op, cases, t.get("otherwise"))
    if s.startswith("drop("):
        j = scan_balanced(s, 5, ")")
        rest = s[j + 1:].strip()
        t = parse_targets(rest[3:])
        return ("drop", parse_place(s[5:j]), t["return"])
    if s.startswith("assert("):
        j = scan_balanced(s, 7, ")")
        parts = split_top(s[7:j])
        cond = parts[0]
        neg = cond.startswith("!")
        if neg:
            cond = cond[1:]
        rest = s[j + 1:].strip()
        t = parse_targets(rest[3:])
        return ("assert", neg, parse_operand(cond), parts[1], t["success"])
    if s.startswith("falseEdge") or s.startswith("falseUnwind"):
        raise MirSyntax("unexpected false edge %r" % s)
    # call:  DEST = CALLEE(args) -> [return: bbN, unwind ...]   |   CALLEE(args) -> unwind ..
    # find ' -> [' at top level from the right
    k = s.rfind(" -> ")
    if k < 0:
        raise MirSyntax("unrecognised terminator %r" % s)
    targets = parse_targets(s[k + 4:])
    body = s[:k]
    # split dest
    j = scan_balanced(body, 0, "=")
    if j < len(body) and body[j] == "=" and body[j + 1] == " ":
        dest = parse_place(body[:j])
        call = body[j + 2:]
    else:
        dest = None
        call = body
    call = call.strip()
    if not call.endswith(")"):
        raise MirSyntax("bad call %r" % s)
    # the argument list is the last balanced (...) group
    depth = 0
    i = len(call) - 1
    # walk backwards to find matching '('; strings may contain parens, so do a forward scan instead
    pos = 0
    last_open = None
    while pos < len(call):
        nxt = scan_balanced(call, pos, "(")
        if nxt >= len(call):
            break
        close = scan_balanced(call, nxt + 1, ")")
        if close == len(call) - 1:
            last_open = nxt
            break
        pos = close + 1
    if last_open is None:
        raise MirSyntax("cannot find call args in %r" % s)
    callee = call[:last_open].strip()
    args = tuple(parse_operand(x) for x in split_top(call[last_open + 1:-1]))
    if callee.startswith(("move ", "copy ")):
        callee_v = ("op", parse_operand(callee))
    else:
        callee_v = ("path", callee)
    return ("call", dest, callee_v, args, targets.get("return"), callee)


def parse_statement(line):
    s = line.strip()
    if not s.endswith(";"):
        raise MirSyntax("statement without ; %r" % s)
    s = s[:-1]
    if s.startswith(("StorageLive(", "StorageDead(", "FakeRead(", "AscribeUserType(", "PlaceMention(", "Retag(", "Coverage", "nop", "ConstEvalCounter", "BackwardIncompatibleDropHint")):
        return None
    if s.startswith("Deinit("):
        return None
    if s.startswith("discriminant("):
        j = scan_balanced(s, 13, ")")
        rest = s[j + 1:].strip()
        assert rest.startswith("= ")
        return ("setdiscr", parse_place(s[13:j]), int(rest[2:]))
    if s.startswith("assume(") or s.startswith("Assume("):
        return None
    j = scan_balanced(s, 0, "=")
    if j >= len(s):
        raise MirSyntax("unrecognised statement %r" % s)
    place = parse_place(s[:j])
    return ("assign", place, parse_rvalue(s[j + 1:]))


# ----------------------------------------------------------------------------------------
# whole file

_re_fn = re.compile(r"^fn (.*)$")
_re_bb = re.compile(r"^    bb(\d+)(?: \(cleanup\))?: \{$")
_re_let = re.compile(r"^    (?:    )*let (?:mut )?_(\d+): (.*);$")
_re_capture = re.compile(r"[(*]_1\)?\.(\d+): ")
_re_debug = re.compile(r"^    (?:    )*debug (.*) => (.*);$")
_TERM_PREFIX = ("return", "unreachable", "resume", "goto ", "switchInt(", "drop(", "assert(", "terminate", "abort")


def parse_header(rest):
    """'NAME(_1: T, _2: T) -> RET {'  ->  name, args, ret"""
    assert rest.endswith("{")
    rest = rest[:-1].rstrip()
    # name ends at the '(' that opens the arg list: the last top-level '(' before ' -> ' or end.
    # names can contain '(' only inside <impl at ..> or {closure#0} which scan_balanced skips...
    # `<impl at src/x.rs:1:1: 2:2>` is balanced by '<' '>'.
    i = 0
    open_idx = None
    while True:
        j = scan_balanced(rest, i, "(")
        if j >= len(rest):
            break
        close = scan_balanced(rest, j + 1, ")")
        after = rest[close + 1:].lstrip()
        if after == "" or after.startswith("->"):
            open_idx = j
            close_idx = close
            break
        i = close + 1
    if open_idx is None:
        raise MirSyntax("bad fn header %r" % rest)
    name = rest[:open_idx]
    args = []
    for part in split_top(rest[open_idx + 1:close_idx]):
        k, v = part.split(": ", 1)
        k = k.strip()
        args.append((int(k[1:]), v.strip()))
    after = rest[close_idx + 1:].strip()
    ret = after[2:].strip() if after.startswith("->") else "()"
    return name, args, ret


def parse_mir(text):
    fns = {}
    lines = text.split("\n")
    n = len(lines)
    i = 0
    while i < n:
        line = lines[i]
        if line.startswith("fn "):
            name, args, ret = parse_header(line[3:])
            f = Function(name, "fn")
            f.args = args
            f.ret = ret
        elif line.startswith("const ") or line.startswith("static ") or line.startswith("static mut "):
            kw, rest = line.split(" ", 1)
            if rest.startswith("mut "):
                rest = rest[4:]
            # 'NAME: TYPE = {'  or 'NAME: TYPE = const X;'
            k = scan_balanced(rest, 0, "=")
            head = rest[:k].rstrip()
            tail = rest[k + 1:].strip()
            c = head.rfind(": ")
            # name may contain ': ' inside <impl at a:b:c: d:e>; use scan to find top-level ': '
            pos = 0
            cpos = None
            while True:
                q = scan_balanced(head, pos, ":")
                if q >= len(head):
                    break
                if head[q:q + 2] == ": " and (q == 0 or head[q - 1] != ":") :
                    cpos = q
                    break
                pos = q + 2 if head[q:q + 2] == "::" else q + 1
            if cpos is None:
                raise MirSyntax("bad const header %r" % line)
            name = head[:cpos].strip()
            f = Function(name, "promoted" if "promoted[" in name else kw)
            f.ret = head[cpos + 2:].strip()
            if tail != "{":
                # inline constant: = const X;
                assert tail.startswith("const ") and tail.endswith(";"), line
                f.locals[0] = f.ret
                f.blocks[0] = ([("assign", (0, ()), ("use", ("const", parse_const(tail[6:-1]))))], ("return",))
                fns[name] = f
                i += 1
                continue
        else:
            i += 1
            continue
        f.src = i + 1
        i += 1
        cur_bb = None
        stmts = None
        while i < n:
            line = lines[i]
            if line == "}":
                break
            m = _re_bb.match(line)
            if m:
                cur_bb = int(m.group(1))
                stmts = []
                i += 1
                continue
            if cur_bb is None:
                m = _re_let.match(line)
                if m:
                    f.locals[int(m.group(1))] = m.group(2)
                else:
                    m = _re_debug.match(line)
                    if m:
                        f.debug.setdefault(m.group(1), m.group(2))
                        mm = _re_capture.search(m.group(2))
                        if mm:
                            f.captures.append((int(mm.group(1)), m.group(1)))
                i += 1
                continue
            s = line.strip()
            if s == "}":
                if stmts is not None and cur_bb not in f.blocks:
                    raise MirSyntax("block bb%d of %s without terminator" % (cur_bb, f.name))
                cur_bb = None
                i += 1
                continue
            if s == "":
                i += 1
                continue
            # statements end with ';', a statement may span lines only for string consts with newlines
            full = line
            while not _complete(full):
                i += 1
                full += "\n" + lines[i]
            s = full.strip()
            body = s[:-1] if s.endswith(";") else s
            is_term = body.startswith(_TERM_PREFIX) or " -> [" in body or body.endswith(" -> unwind continue") or re.search(r" -> bb\d+$", body) is not None
            if is_term and not body.startswith(_TERM_PREFIX):
                # make sure '->' is at top level (not within a type in a statement)
                is_term = _has_top_arrow(body)
            if is_term:
                f.blocks[cur_bb] = (stmts, parse_terminator(s))
                stmts = None
            else:
                st = parse_statement(s)
                if st is not None:
                    stmts.append(st)
            i += 1
        for a, t in f.args:
            f.locals[a] = t
        fns[f.name] = f
        i += 1
    return fns


def _complete(full):
    """a logical line is complete when it ends with ';' outside a string literal"""
    s = full.rstrip()
    if not s.endswith(";"):
        # terminators like 'return;' always end with ';' too; an incomplete string continues
        return _balanced_strings(s) and s.endswith(";")
    return _balanced_strings(s)


def _balanced_strings(s):
    i = 0
    n = len(s)
    while i < n:
        c = s[i]
        if c == '"':
            try:
                i = skip_string(s, i)
            except MirSyntax:
                return False
            continue
        if c == "'":
            i = skip_char_or_lifetime(s, i)
            continue
        i += 1
    return True


def _has_top_arrow(body):
    # find ' -> ' that is followed by '[' or 'bb' or 'unwind' at top level
    i = 0
    n = len(body)
    depth = 0
    while i < n:
        c = body[i]
        if c == '"':
            i = skip_string(body, i)
            continue
        if c == "'":
            i = skip_char_or_lifetime(body, i)
            continue
        if c in "([{":
            depth += 1
        elif c in ")]}":
            depth -= 1
        elif depth == 0 and body.startswith(" -> ", i):
            rest = body[i + 4:]
            if rest.startswith("[") or rest.startswith("bb") or rest.startswith("unwind"):
                return True
        i += 1
    return False


if __name__ == "__main__":
    import sys, time
    t = time.time()
    fns = parse_mir(open(sys.argv[1]).read())
    print(len(fns), "functions parsed in %.2fs" % (time.time() - t))
    nst = sum(len(b[0]) for f in fns.values() for b in f.blocks.values())
    print(nst, "statements")
