"""mirsym: path-forking symbolic executor for rustc MIR with Z3 as the deciding solver.

  Program  - parsed MIR of one or more crates + layouts + dispatch tables
  Exec     - one exploration (decision replay DFS, solver, step budget)

Forking is replay based: a path is the list of decisions taken at symbolic branch points; to
explore a sibling the whole harness is re-run with a longer forced prefix.  This keeps models
plain Python (they may call back into the executor and branch anywhere).
"""
import re
import sys
import time
import z3

from .mirparse import parse_mir, scan_balanced, split_top, MirSyntax
from .values import *
from .layout import Layout

sys.setrecursionlimit(20000)


class Unmodelled(Exception):
    """callee / construct outside the encoding: the run is inconclusive, never a pass"""


class ExecError(Exception):
    """executor invariant broken (bug in mirsym or unexpected MIR)"""


class Panic(Exception):
    """the program under test panics on this path"""

    def __init__(self, msg, where=None):
        Exception.__init__(self, msg)
        self.msg = msg
        self.where = where


class Infeasible(Exception):
    """path condition became unsatisfiable (assume(false))"""


class BoundExceeded(Exception):
    pass


class Halt(Exception):
    """process::exit model"""

    def __init__(self, code):
        Exception.__init__(self, "exit(%r)" % (code,))
        self.code = code


INT_TYPES = {
    "usize": (64, False), "u64": (64, False), "u32": (32, False), "u16": (16, False), "u8": (8, False),
    "u128": (128, False), "isize": (64, True), "i64": (64, True), "i32": (32, True), "i16": (16, True),
    "i8": (8, True), "i128": (128, True), "char": (32, False),
}

# ------------------------------------------------------------------------------------------------
# callee text canonicalisation

_re_ident_end = re.compile(r"[A-Za-z0-9_\]]")


def strip_generics(s):
    """remove `::<..>` groups and `<..>` type-argument groups that directly follow an identifier;
    keeps leading `<X as Y>` and `<impl ..>` segments."""
    out = []
    i = 0
    n = len(s)
    while i < n:
        c = s[i]
        if c == "<":
            prev = out[-1] if out else ""
            is_args = False
            if s.startswith("::<", i - 2) and not s.startswith("<impl", i):
                # turbofish: drop the preceding '::' as well
                j = _match_angle(s, i)
                # remove trailing '::' already emitted
                if len(out) >= 2 and out[-1] == ":" and out[-2] == ":":
                    out.pop(); out.pop()
                i = j + 1
                continue
            if prev and _re_ident_end.match(prev) and not s.startswith("<impl", i):
                j = _match_angle(s, i)
                i = j + 1
                continue
            j = _match_angle(s, i)
            out.append(s[i:j + 1])
            i = j + 1
            continue
        if c == "{":
            j = scan_balanced(s, i + 1, "}")
            out.append(s[i:j + 1])
            i = j + 1
            continue
        out.append(c)
        i += 1
    return "".join(out)


def _match_angle(s, i):
    assert s[i] == "<"
    j = scan_balanced(s, i + 1, ">")
    return j


def type_head(t):
    t = t.strip()
    while t.startswith("&"):
        t = t[1:].strip()
        if t.startswith("'"):
            sp = t.find(" ")
            t = t[sp + 1:] if sp > 0 else t
        if t.startswith("mut "):
            t = t[4:]
    if t.startswith("dyn "):
        return "dyn"
    if t.startswith("["):
        return "slice"
    if t.startswith("("):
        return "tuple"
    if t.startswith("{closure@"):
        return "closure"
    if t.startswith("fn(") or t.startswith("for<"):
        return "fn"
    if t.startswith("*const ") or t.startswith("*mut "):
        return "ptr"
    if t.startswith("impl "):
        return "impl"
    i = 0
    n = len(t)
    # path up to first '<' at top level
    j = t.find("<")
    base = t if j < 0 else t[:j]
    return base.split("::")[-1]


class Callee:
    __slots__ = ("kind", "selfty", "trait", "method", "segs", "raw", "generics", "key", "trait_args")


_callee_cache = {}


def parse_callee(text):
    c = _callee_cache.get(text)
    if c is not None:
        return c
    c = Callee()
    c.raw = text
    c.generics = None
    c.trait_args = None
    if text.startswith("<") and not text.startswith("<impl"):
        j = _match_angle(text, 0)
        inner = text[1:j]
        rest = text[j + 1:]
        # split inner at top-level ' as '
        k = _find_top(inner, " as ")
        if k >= 0:
            c.kind = "trait"
            c.selfty = inner[:k]
            tr = strip_generics(inner[k + 4:])
            c.trait = tr.split("::")[-1]
            full_tr = inner[k + 4:]
            lt = full_tr.find("<")
            c.trait_args = full_tr[lt + 1:-1] if lt >= 0 and full_tr.endswith(">") else None
            assert rest.startswith("::"), text
            m = rest[2:]
            g = m.find("::<")
            if g >= 0:
                c.generics = m[g + 3:-1]
                m = m[:g]
            c.method = m
            c.segs = None
            c.key = c.trait + "::" + c.method
            _callee_cache[text] = c
            return c
        # `<T>::method` (inherent on odd types, e.g. <[T]>::len or <dyn Tr>::m)
        c.kind = "path"
        m = rest[2:]
        g = m.find("::<")
        if g >= 0:
            c.generics = m[g + 3:-1]
            m = m[:g]
        c.segs = [type_head(inner), m]
        c.key = "::".join(c.segs)
        c.selfty = inner
        _callee_cache[text] = c
        return c
    c.kind = "path"
    # last turbofish = generics of the function itself
    if text.endswith(">"):
        # find the matching '<' of the last group
        depth = 0
        i = len(text) - 1
        while i >= 0:
            ch = text[i]
            if ch == ">" and text[i - 1] != "-":
                depth += 1
            elif ch == "<":
                depth -= 1
                if depth == 0:
                    break
            i -= 1
        if i >= 2 and text[i - 2:i] == "::":
            c.generics = text[i + 1:-1]
    s = strip_generics(text)
    segs = [x for x in _split_path(s)]
    # `core::slice::<impl [T]>::iter` -> slice::iter ; `core::str::<impl str>::len` -> str::len
    segs2 = []
    for x in segs:
        if x.startswith("<impl"):
            inner = x[5:-1].strip()
            h = type_head(inner)
            if segs2 and segs2[-1] in ("slice", "str", "num", "char", "option", "result", "array", "ptr"):
                segs2[-1] = h if h not in ("slice",) else "slice"
            else:
                segs2.append(h)
            continue
        segs2.append(x)
    c.segs = segs2
    c.key = "::".join(segs2[-2:]) if len(segs2) >= 2 else segs2[0]
    c.selfty = None
    c.trait = None
    c.method = segs2[-1]
    _callee_cache[text] = c
    return c


def _find_top(s, needle):
    i = 0
    n = len(s)
    while i < n:
        j = scan_balanced(s, i, needle[0])
        if j >= n:
            return -1
        if s.startswith(needle, j):
            return j
        i = j + 1
    return -1


def _split_path(s):
    out = []
    i = 0
    n = len(s)
    start = 0
    while i < n:
        c = s[i]
        if c == "<":
            i = _match_angle(s, i) + 1
            continue
        if c == "{":
            i = scan_balanced(s, i + 1, "}") + 1
            continue
        if c == ":" and s.startswith("::", i):
            out.append(s[start:i])
            i += 2
            start = i
            continue
        i += 1
    out.append(s[start:])
    return [x for x in out if x != ""]


# ------------------------------------------------------------------------------------------------

_re_impl = re.compile(r"<impl at ([^:>]+):(\d+):(\d+): \d+:\d+>")
_re_closure_ty = re.compile(r"\{closure@([^}]*)\}")

TRANSPARENT_FIELD_TYPES = ("std::mem::ManuallyDrop<", "std::mem::MaybeDangling<", "std::ptr::Unique<",
                           "std::ptr::NonNull<", "std::mem::MaybeUninit<")


class Program:
    def __init__(self):
        self.fns = {}
        self.layout = Layout()
        self.by_inherent = {}
        self.by_trait = {}
        self.by_trait_multi = {}
        self.trait_default = {}
        self.free = {}
        self.closures = {}
        self.consts = {}
        self.traits = set()
        self.sources = []

    def load(self, mir_path, doc_json, crate):
        """crate: short crate name used to prefix function names of non-bpaf crates"""
        text = open(mir_path).read()
        fns = parse_mir(text)
        lay = Layout()
        lay.load(doc_json)
        import json
        d = json.load(open(doc_json))
        for k, v in d["index"].items():
            if "trait" in v["inner"]:
                self.traits.add(v["name"])
        # merge adts
        for k, v in lay.adts.items():
            if k in self.layout.adts and k in ("__dups__",):
                continue
            if k not in self.layout.adts:
                self.layout.adts[k] = v
        self.sources.append((mir_path, len(text), len(fns)))
        for name, f in fns.items():
            full = crate + "::" + name if crate else name
            self.fns[full] = f
            f.name = full
            self._prep(f)
            if f.kind != "fn":
                self.consts[name] = f
                segs = _split_path(strip_generics(name))
                self.consts.setdefault("::".join(segs[-2:]), f)
                self.consts.setdefault(segs[-1], f)
                continue
            # closures: keyed by the span in the type of _1
            if "{closure#" in name and f.args:
                m = _re_closure_ty.search(f.args[0][1])
                if m:
                    parent = full[:full.rfind("::{closure#")]
                    caps = ",".join(sorted(set(n[2:] if n.startswith("r#") else n for _, n in f.captures)))
                    self.closures.setdefault(parent + "|" + m.group(1) + "|" + caps, []).append(f)
                    continue
            m = _re_impl.search(name)
            if m and "{closure#" not in name:
                key = (m.group(1), int(m.group(2)), int(m.group(3)))
                im = lay.impls.get(key)
                rest = name[m.end():]
                meth = rest[2:] if rest.startswith("::") else rest
                if im is None:
                    raise ExecError("impl at %r not found in rustdoc json (%s)" % (key, name))
                if "::" in meth:
                    # nested item inside a method (const, fn); register as free, also under parent::name
                    self.free.setdefault(meth.split("::")[-1], []).append(f)
                    self.free.setdefault("::".join(meth.split("::")[-2:]), []).append(f)
                    continue
                if im["trait"]:
                    k3 = (im["trait"], im["for"], meth)
                    if k3 in self.by_trait and self.by_trait[k3] is not f:
                        self.by_trait_multi.setdefault(k3, [self.by_trait[k3]]).append(f)
                    self.by_trait[k3] = f
                else:
                    self.by_inherent[(im["for"], meth)] = f
                continue
            segs = _split_path(name)
            if len(segs) >= 2 and segs[-2] in self.traits:
                self.trait_default[(segs[-2], segs[-1])] = f
            self.free.setdefault(segs[-1], []).append(f)
            if len(segs) >= 2:
                self.free.setdefault("::".join(segs[-2:]), []).append(f)

    # rewrite places once: drop downcasts, make transparent wrapper fields identity
    def _prep(self, f):
        for bb, (stmts, term) in list(f.blocks.items()):
            ns = []
            for st in stmts:
                if st[0] == "assign":
                    ns.append(("assign", self._pp(st[1]), self._prv(st[2])))
                else:
                    ns.append(st)
            f.blocks[bb] = (ns, self._pterm(term))
        f.nlocals = max(f.locals) + 1 if f.locals else 1

    def _pp(self, place):
        loc, proj = place
        out = []
        prev_ty = None
        for p in proj:
            k = p[0]
            if k == "field":
                ty = p[2]
                if ty.startswith(TRANSPARENT_FIELD_TYPES) or (prev_ty is not None and prev_ty.startswith(TRANSPARENT_FIELD_TYPES)):
                    prev_ty = ty
                    continue
                prev_ty = ty
                out.append(("f", p[1]))
            elif k == "downcast":
                prev_ty = None
                continue
            elif k == "deref":
                prev_ty = None
                out.append(("d",))
            elif k == "index":
                prev_ty = None
                out.append(("i", p[1]))
            elif k == "constidx":
                prev_ty = None
                out.append(("c", p[1], p[2], p[3]))
            elif k == "subslice":
                prev_ty = None
                out.append(("s", p[1], p[2], p[3]))
            elif k == "subtype":
                continue
            else:
                raise MirSyntax("projection %r" % (p,))
        return (loc, tuple(out))

    def _pop(self, op):
        if op[0] in ("copy", "move", "nrcopy"):
            return (op[0], self._pp(op[1]))
        return op

    def _prv(self, rv):
        k = rv[0]
        if k == "use":
            return ("use", self._pop(rv[1]))
        if k == "ref":
            return ("ref", rv[1], self._pp(rv[2]))
        if k in ("discr", "len"):
            return (k, self._pp(rv[1]))
        if k == "binop":
            return ("binop", rv[1], self._pop(rv[2]), self._pop(rv[3]))
        if k == "unop":
            return ("unop", rv[1], self._pop(rv[2]))
        if k == "cast":
            return ("cast", self._pop(rv[1]), rv[2], rv[3])
        if k == "array" or k == "tuple":
            return (k, tuple(self._pop(x) for x in rv[1]))
        if k == "repeat":
            return ("repeat", self._pop(rv[1]), rv[2])
        if k == "adt":
            return ("adt", rv[1], rv[2], tuple(self._pop(x) for x in rv[3]))
        if k == "closure":
            return ("closure", rv[1], tuple((n, self._pop(x)) for n, x in rv[2]))
        raise MirSyntax("rvalue %r" % (rv,))

    def _pterm(self, t):
        k = t[0]
        if k == "switch":
            return ("switch", self._pop(t[1]), t[2], t[3])
        if k == "drop":
            return ("goto", t[2])
        if k == "assert":
            return ("assert", t[1], self._pop(t[2]), t[3], t[4])
        if k == "call":
            dest = self._pp(t[1]) if t[1] is not None else None
            callee = t[2]
            if callee[0] == "op":
                callee = ("op", self._pop(callee[1]))
            else:
                callee = ("path", parse_callee(callee[1]))
            return ("call", dest, callee, tuple(self._pop(x) for x in t[3]), t[4], t[5])
        return t


# ------------------------------------------------------------------------------------------------

class PathResult:
    __slots__ = ("kind", "value", "pc", "info", "decisions")

    def __init__(self, kind, value=None, info=None):
        self.kind = kind  # 'ok' | 'panic' | 'halt' | 'infeasible'
        self.value = value
        self.info = info


class Exec:
    def __init__(self, prog, models, step_budget=400000, depth_budget=400, solver_timeout_ms=20000):
        self.prog = prog
        self.models = models  # dict key -> python function(ex, callee, args)
        self.step_budget = step_budget
        self.depth_budget = depth_budget
        self.solver = z3.Solver()
        self.solver.set("timeout", solver_timeout_ms)
        self.axioms = []  # global facts re-asserted at every path start (intern table etc.)
        self.path_axioms = []  # extra assumptions for a nested exploration (relational checks)
        self.strtab = {}  # concrete string -> id
        self.strrev = {}
        self.pc = []
        self.trace = []  # [choice_pos, options(list of option indices)]
        self.prefix = []
        self.pos = 0
        self.steps = 0
        self.depth = 0
        self.stats = {"paths": 0, "queries": 0, "sat": 0, "unsat": 0, "unknown": 0, "solver_s": 0.0,
                      "steps": 0, "decisions": 0}
        self.model_hits = {}
        self.fn_hits = {}
        self.const_cache = {}
        self.fresh_n = 0
        self.notes = []  # per-path scratch for harnesses
        self.cut_log = []
        self.callstack = []

    # -------------------------------------------------------------------- symbolic helpers
    def fresh(self, name, sort):
        self.fresh_n += 1
        nm = "%s!%d" % (name, self.fresh_n)
        if sort == "bool":
            return z3.Bool(nm)
        if sort == "int":
            return z3.Int(nm)
        if isinstance(sort, int):
            return z3.BitVec(nm, sort)
        return z3.Const(nm, sort)

    def intern(self, s):
        i = self.strtab.get(s)
        if i is None:
            i = len(self.strtab)
            self.strtab[s] = i
            self.strrev[i] = s
            for hook in getattr(self, "intern_hooks", ()):
                hook(self, s, i)
        return i

    def str_term(self, v):
        if isinstance(v, SymStr):
            return v.term
        if isinstance(v, str):
            return z3.IntVal(self.intern(v))
        raise ExecError("not a string: %r" % (v,))

    def add_axiom(self, c):
        self.axioms.append(c)
        self.solver.add(c)

    def assume(self, cond):
        if cond is True:
            return
        if cond is False:
            raise Infeasible()
        cond = z3.simplify(cond)
        if z3.is_true(cond):
            return
        if z3.is_false(cond):
            raise Infeasible()
        self.pc.append(cond)
        self.solver.add(cond)

    def check(self, *extra):
        t = time.time()
        r = self.solver.check(*extra)
        self.stats["solver_s"] += time.time() - t
        self.stats["queries"] += 1
        if r == z3.sat:
            self.stats["sat"] += 1
        elif r == z3.unsat:
            self.stats["unsat"] += 1
        else:
            self.stats["unknown"] += 1
        return r

    def choose(self, conds, tag=None):
        """pick one of the (mutually exclusive, jointly exhaustive) conditions; returns its index.
        Conditions may be python bools or z3 Bools."""
        # concrete shortcut
        n = len(conds)
        simp = []
        for c in conds:
            if c is True or c is False:
                simp.append(c)
            else:
                c2 = z3.simplify(c)
                if z3.is_true(c2):
                    simp.append(True)
                elif z3.is_false(c2):
                    simp.append(False)
                else:
                    simp.append(c2)
        if any(c is True for c in simp):
            return simp.index(True)
        cand = [i for i in range(n) if simp[i] is not False]
        if not cand:
            raise Infeasible()
        if self.pos < len(self.prefix):
            choice, options = self.prefix[self.pos]
            self.trace.append([choice, options])
            self.pos += 1
            idx = options[choice]
            c = simp[idx]
            if c is not True:
                self.pc.append(c)
                self.solver.add(c)
            return idx
        options = []
        for i in cand:
            r = self.check(simp[i])
            if r == z3.sat:
                options.append(i)
            elif r == z3.unknown:
                raise BoundExceeded("solver unknown at decision %s" % (tag,))
        if not options:
            raise Infeasible()
        self.stats["decisions"] += 1
        self.trace.append([0, options])
        self.pos += 1
        idx = options[0]
        self.pc.append(simp[idx])
        self.solver.add(simp[idx])
        return idx

    def branch(self, cond, tag=None):
        if cond is True or cond is False:
            return cond
        if isinstance(cond, bool):
            return cond
        return self.choose([cond, z3.Not(cond)], tag) == 0

    def concretize(self, term, candidates, tag=None):
        """fork so that `term` (int / BitVec) equals one of the candidates or none (returns None)"""
        if isinstance(term, int):
            return term if term in candidates else None
        conds = [term == c for c in candidates]
        conds.append(z3.And(*[term != c for c in candidates]) if candidates else True)
        i = self.choose(conds, tag)
        return candidates[i] if i < len(candidates) else None

    def model(self):
        r = self.check()
        if r != z3.sat:
            raise ExecError("path condition not sat at model extraction: %s" % r)
        return self.solver.model()

    def prove(self, cond):
        """returns None if cond holds on every input of the current path, else a z3 model"""
        if cond is True:
            return None
        if cond is False:
            return self.model()
        r = self.check(z3.Not(cond))
        if r == z3.unsat:
            return None
        if r == z3.sat:
            return self.solver.model()
        raise BoundExceeded("solver unknown in prove")

    # -------------------------------------------------------------------- exploration driver
    def explore(self, harness, on_path, max_paths=None, prefix=None):
        """run harness(ex) along every feasible path.  on_path(ex, PathResult) is called at the end
        of each path while the solver still holds the path condition."""
        self.prefix = [list(x) for x in (prefix or [])]
        base = len(self.prefix)
        n = 0
        while True:
            self.solver.reset()
            self.solver.set("timeout", 20000)
            for a in self.axioms:
                self.solver.add(a)
            for a in self.path_axioms:
                self.solver.add(a)
            self.pc = []
            self.trace = []
            self.pos = 0
            self.steps = 0
            self.depth = 0
            self.notes = []
            self.cut_log = []
            self.callstack = []
            try:
                v = harness(self)
                res = PathResult("ok", v)
            except Panic as p:
                res = PathResult("panic", None, (p.msg, p.where))
            except Halt as h:
                res = PathResult("halt", h.code)
            except Infeasible:
                res = PathResult("infeasible")
            self.stats["steps"] += self.steps
            if res.kind != "infeasible":
                self.stats["paths"] += 1
                n += 1
                on_path(self, res)
            # backtrack
            tr = self.trace
            while len(tr) > base and tr[-1][0] + 1 >= len(tr[-1][1]):
                tr.pop()
            if len(tr) <= base:
                break
            tr[-1][0] += 1
            self.prefix = tr
            if max_paths is not None and n >= max_paths:
                raise BoundExceeded("max_paths")

    def sub_explore(self, fn, on_leaf):
        """explore all decision paths of a *pure* python function on top of the current path
        condition without re-running the harness (used for reference semantics / oracles)"""
        saved = (self.prefix, self.trace, self.pos, len(self.pc))
        prefix = []
        try:
            while True:
                self.solver.push()
                self.prefix = prefix
                self.trace = []
                self.pos = 0
                try:
                    r = fn(self)
                    on_leaf(self, r)
                except Infeasible:
                    pass
                finally:
                    self.solver.pop()
                    del self.pc[saved[3]:]
                tr = self.trace
                while tr and tr[-1][0] + 1 >= len(tr[-1][1]):
                    tr.pop()
                if not tr:
                    break
                tr[-1][0] += 1
                prefix = tr
        finally:
            self.prefix, self.trace, self.pos = saved[0], saved[1], saved[2]

    # -------------------------------------------------------------------- ints
    def int_ty(self, ty):
        t = INT_TYPES.get(ty)
        if t is None:
            raise ExecError("not an int type: %r" % ty)
        return t

    def to_bv(self, v, bits):
        if isinstance(v, bool):
            return z3.BitVecVal(1 if v else 0, bits)
        if isinstance(v, int):
            return z3.BitVecVal(v, bits)
        if z3.is_bool(v):
            return z3.If(v, z3.BitVecVal(1, bits), z3.BitVecVal(0, bits))
        if v.size() == bits:
            return v
        raise ExecError("width mismatch %s vs %d" % (v, bits))

    def binop(self, op, a, b, ty):
        """ty: type name of the operands"""
        if isinstance(a, str) or isinstance(b, str) or isinstance(a, SymStr) or isinstance(b, SymStr):
            raise ExecError("binop on strings")
        sym = is_sym(a) or is_sym(b)
        if ty == "bool" or isinstance(a, bool) or (is_sym(a) and z3.is_bool(a)):
            return self.bool_binop(op, a, b)
        if ty is None:
            if is_sym(a):
                bits, signed = a.size(), False
            elif is_sym(b):
                bits, signed = b.size(), False
            else:
                bits, signed = 64, False
        else:
            bits, signed = self.int_ty(ty)
        mask = (1 << bits) - 1
        if not sym:
            if op in ("Add", "AddWithOverflow", "AddUnchecked"):
                r = a + b
            elif op in ("Sub", "SubWithOverflow", "SubUnchecked"):
                r = a - b
            elif op in ("Mul", "MulWithOverflow", "MulUnchecked"):
                r = a * b
            elif op == "Div":
                if b == 0:
                    raise Panic("attempt to divide by zero")
                r = abs(a) // abs(b) * (1 if (a >= 0) == (b >= 0) else -1)
            elif op == "Rem":
                if b == 0:
                    raise Panic("attempt to calculate the remainder with a divisor of zero")
                r = abs(a) % abs(b) * (1 if a >= 0 else -1)
            elif op == "BitAnd":
                r = a & b
            elif op == "BitOr":
                r = a | b
            elif op == "BitXor":
                r = a ^ b
            elif op in ("Shl", "ShlUnchecked"):
                r = a << (b % bits)
            elif op in ("Shr", "ShrUnchecked"):
                r = a >> (b % bits)
            elif op == "Eq":
                return a == b
            elif op == "Ne":
                return a != b
            elif op == "Lt":
                return a < b
            elif op == "Le":
                return a <= b
            elif op == "Gt":
                return a > b
            elif op == "Ge":
                return a >= b
            elif op == "Cmp":
                return Adt("Ordering", 0 if a < b else (1 if a == b else 2), ())
            else:
                raise Unmodelled("binop " + op)
            if signed:
                lo, hi = -(1 << (bits - 1)), (1 << (bits - 1)) - 1
                ovf = r < lo or r > hi
                w = r & mask
                if w > hi:
                    w -= 1 << bits
            else:
                ovf = r < 0 or r > mask
                w = r & mask
            if op.endswith("WithOverflow"):
                return (w, ovf)
            return w
        A = self.to_bv(a, bits)
        B = self.to_bv(b, bits)
        if op in ("Add", "AddUnchecked"):
            return A + B
        if op in ("Sub", "SubUnchecked"):
            return A - B
        if op in ("Mul", "MulUnchecked"):
            return A * B
        if op == "AddWithOverflow":
            ovf = z3.Not(z3.BVAddNoOverflow(A, B, signed))
            if signed:
                ovf = z3.Or(ovf, z3.Not(z3.BVAddNoUnderflow(A, B)))
            return (A + B, ovf)
        if op == "SubWithOverflow":
            if signed:
                ovf = z3.Or(z3.Not(z3.BVSubNoOverflow(A, B)), z3.Not(z3.BVSubNoUnderflow(A, B, True)))
            else:
                ovf = z3.ULT(A, B)
            return (A - B, ovf)
        if op == "MulWithOverflow":
            ovf = z3.Not(z3.BVMulNoOverflow(A, B, signed))
            return (A * B, ovf)
        if op == "Eq":
            return A == B
        if op == "Ne":
            return A != B
        if op == "Lt":
            return (A < B) if signed else z3.ULT(A, B)
        if op == "Le":
            return (A <= B) if signed else z3.ULE(A, B)
        if op == "Gt":
            return (A > B) if signed else z3.UGT(A, B)
        if op == "Ge":
            return (A >= B) if signed else z3.UGE(A, B)
        if op == "BitAnd":
            return A & B
        if op == "BitOr":
            return A | B
        if op == "BitXor":
            return A ^ B
        if op == "Div":
            if self.branch(B == 0):
                raise Panic("attempt to divide by zero")
            return (A / B) if signed else z3.UDiv(A, B)
        if op == "Rem":
            if self.branch(B == 0):
                raise Panic("attempt to calculate the remainder with a divisor of zero")
            return z3.SRem(A, B) if signed else z3.URem(A, B)
        if op in ("Shl", "ShlUnchecked"):
            return A << B
        if op in ("Shr", "ShrUnchecked"):
            return (A >> B) if signed else z3.LShR(A, B)
        if op == "Cmp":
            lt = (A < B) if signed else z3.ULT(A, B)
            i = self.choose([lt, A == B, z3.And(z3.Not(lt), A != B)])
            return Adt("Ordering", i, ())
        raise Unmodelled("binop " + op)

    def bool_binop(self, op, a, b):
        sym = is_sym(a) or is_sym(b)
        if not sym:
            a = bool(a); b = bool(b)
            return {"Eq": a == b, "Ne": a != b, "BitAnd": a and b, "BitOr": a or b, "BitXor": a != b,
                    "Lt": a < b, "Le": a <= b, "Gt": a > b, "Ge": a >= b}[op]
        A = a if is_sym(a) else z3.BoolVal(bool(a))
        B = b if is_sym(b) else z3.BoolVal(bool(b))
        if op == "Eq":
            return A == B
        if op in ("Ne", "BitXor"):
            return z3.Xor(A, B)
        if op == "BitAnd":
            return z3.And(A, B)
        if op == "BitOr":
            return z3.Or(A, B)
        raise Unmodelled("bool binop " + op)

    def not_(self, a):
        if isinstance(a, bool):
            return not a
        if is_sym(a):
            if z3.is_bool(a):
                return z3.Not(a)
            return ~a
        raise ExecError("Not on non-bool concrete %r (int Not needs a width)" % (a,))

    # -------------------------------------------------------------------- places / operands
    def loc(self, fr, place):
        l, proj = place
        cell = fr[l]
        if not proj:
            return cell, ()
        path = ()
        for p in proj:
            k = p[0]
            if k == "f":
                path = path + (p[1],)
            elif k == "d":
                v = getp(cell.v, path) if path else cell.v
                t = type(v)
                if t is Ref:
                    cell, path = v.cell, v.path
                elif t is BoxU:
                    cell, path = v.cell, ()
                elif v is None:
                    raise ExecError("deref of uninitialised")
                # else: transparent Box/Rc: stay
            elif k == "i":
                ix = fr[p[1]].v
                seq = getp(cell.v, path)
                n = self.seq_len(seq)
                ix = self.index_check(ix, n)
                path = path + (ix,)
            elif k == "c":
                seq = getp(cell.v, path)
                n = self.seq_len(seq)
                ix = (n - p[1]) if p[3] else p[1]
                if ix < 0 or ix >= n:
                    raise ExecError("constant index out of range")
                path = path + (ix,)
            elif k == "s":
                seq = getp(cell.v, path)
                n = self.seq_len(seq)
                b = (n - p[2]) if p[3] else p[2]
                path = path + (("sub", p[1], b),)
            else:
                raise ExecError("projection " + k)
        return cell, path

    def seq_len(self, v):
        t = type(v)
        if t is Seq:
            return len(v.items)
        if t is BStr:
            return len(v.b)
        if t is str:
            return len(v.encode("utf-8", "surrogateescape"))
        raise ExecError("length of %r" % (v,))

    def index_check(self, ix, n, what="index out of bounds"):
        """bounds-check a possibly symbolic index; forks; raises Panic when out of range"""
        if isinstance(ix, int):
            if ix < 0 or ix >= n:
                raise Panic("%s: the len is %d but the index is %d" % (what, n, ix))
            return ix
        r = self.concretize(ix, list(range(n)), "index")
        if r is None:
            raise Panic("%s: the len is %d but the index is symbolic/out of range" % (what, n))
        return r

    def read(self, fr, place):
        cell, path = self.loc(fr, place)
        v = cell.v
        if path:
            v = getp(v, path)
        if v is None:
            raise ExecError("read of uninitialised %r" % (place,))
        return v

    def write(self, fr, place, val):
        l, proj = place
        if not proj:
            fr[l].v = val
            return
        cell, path = self.loc(fr, place)
        cell.v = setp(cell.v, path, val) if path else val

    def operand(self, fr, op):
        k = op[0]
        if k == "copy" or k == "move":
            return self.read(fr, op[1])
        if k == "nrcopy":
            # `no_retag copy` of a Box/Rc that is represented transparently (the pointee value itself):
            # keep the aliasing - the copy is a pointer to the original place, not a second pointee
            cell, path = self.loc(fr, op[1])
            v = getp(cell.v, path) if path else cell.v
            if v is None:
                raise ExecError("read of uninitialised %r" % (op[1],))
            if type(v) in (Ref, BoxU) or not op[1][1]:
                return v
            return Ref(cell, path)
        return self.const(op[1])

    def const(self, c):
        k = c[0]
        if k == "int":
            return c[1]
        if k == "bool":
            return c[1]
        if k == "char":
            return c[1]
        if k == "str":
            return c[1]
        if k == "unit":
            return UNIT
        if k == "bytes":
            return BStr(tuple(c[1]))
        if k == "path":
            return self.const_path(c[1])
        raise Unmodelled("const %r" % (c,))

    def const_path(self, text):
        v = self.const_cache.get(text)
        if v is not None:
            return v
        s = strip_generics(text)
        segs = [x[5:-1].strip() if x.startswith("<impl ") else x for x in _split_path(s)]
        last2 = "::".join(segs[-2:])
        if last2 in ("usize::MAX", "u64::MAX"):
            v = (1 << 64) - 1
        elif last2 == "u32::MAX":
            v = (1 << 32) - 1
        elif segs[-1] == "PhantomData":
            v = Adt("PhantomData", 0, ())
        elif "promoted[" in text or text in self.prog.consts or last2 in self.prog.consts or (segs[-1] in self.prog.consts and (len(segs) == 1 or segs[-1].isupper())):
            f = None
            for cand in (text, s, last2, segs[-1]):
                for pre in ("",):
                    f = self.prog.consts.get(cand)
                    if f:
                        break
                if f:
                    break
            if f is None:
                # promoted of harness crate etc: try suffix match
                for nm, ff in self.prog.consts.items():
                    if nm.endswith(s):
                        f = ff
                        break
            if f is None:
                raise Unmodelled("const " + text)
            v = self.exec_fn(f, [])
        elif segs[-1] in self.prog.layout.adts and self.prog.layout.adts[segs[-1]]["kind"] == "struct" and not self.prog.layout.adts[segs[-1]]["fields"]:
            v = Adt(segs[-1], 0, ())
        else:
            v = FnItem(text)
        self.const_cache[text] = v
        return v

    # -------------------------------------------------------------------- rvalues
    def rvalue(self, f, fr, rv, dest):
        k = rv[0]
        if k == "use":
            return self.operand(fr, rv[1])
        if k == "ref":
            cell, path = self.loc(fr, rv[2])
            return Ref(cell, path)
        if k == "adt":
            return self.aggregate(fr, rv)
        if k == "discr":
            v = self.read(fr, rv[1])
            return self.discriminant(v)
        if k == "binop":
            a = self.operand(fr, rv[2])
            b = self.operand(fr, rv[3])
            ty = self.op_type(f, rv[2]) or self.op_type(f, rv[3])
            if ty is None and rv[1].endswith("WithOverflow"):
                dt = f.locals.get(dest[0]) if not dest[1] else None
                if dt and dt.startswith("("):
                    ty = dt[1:].split(",")[0]
            return self.binop(rv[1], a, b, ty)
        if k == "unop":
            a = self.operand(fr, rv[2])
            if rv[1] == "Not":
                if isinstance(a, bool) or is_sym(a):
                    return self.not_(a)
                ty = self.op_type(f, rv[2])
                bits, signed = self.int_ty(ty)
                return (~a) & ((1 << bits) - 1)
            if rv[1] == "Neg":
                if is_sym(a):
                    return -a
                return -a
            if rv[1] == "PtrMetadata":
                v = a
                if type(v) is Ref:
                    v = getp(v.cell.v, v.path)
                return self.seq_len(v)
            raise Unmodelled("unop " + rv[1])
        if k == "tuple":
            return tuple(self.operand(fr, x) for x in rv[1])
        if k == "array":
            return Seq(tuple(self.operand(fr, x) for x in rv[1]))
        if k == "repeat":
            n = rv[2]
            m = re.match(r"^(?:const )?(\d+)(?:_usize)?$", n.strip())
            if not m:
                raise Unmodelled("repeat count " + n)
            return Seq((self.operand(fr, rv[1]),) * int(m.group(1)))
        if k == "closure":
            key = f.name + "|" + rv[1][len("{closure@"):-1] + "|" + ",".join(sorted((n[2:] if n.startswith("r#") else n) for n, _ in rv[2]))
            return Closure(key, tuple(self.operand(fr, x) for _, x in rv[2]))
        if k == "len":
            return self.seq_len(self.read(fr, rv[1]))
        if k == "cast":
            return self.cast(f, fr, rv)
        raise Unmodelled("rvalue " + k)

    def cur_crate(self, f):
        nm = f.name
        i = nm.find("::")
        c = nm[:i] if i > 0 else ""
        return c if c in getattr(self.prog, "crates", ()) else ""

    def op_type(self, f, op):
        if op[0] == "const":
            c = op[1]
            if c[0] == "int":
                return c[2]
            if c[0] == "bool":
                return "bool"
            if c[0] == "char":
                return "char"
            return None
        l, proj = op[1]
        if not proj:
            t = f.locals.get(l)
            if t in INT_TYPES or t == "bool":
                return t
            return None
        return None

    def discriminant(self, v):
        if type(v) is Adt:
            a = self.prog.layout.adts.get(v.ty)
            if a and "discr" in a:
                return a["discr"][v.var]
            return v.var
        raise ExecError("discriminant of %r" % (v,))

    def aggregate(self, fr, rv):
        _, path, names, ops = rv
        vals = tuple(self.operand(fr, x) for x in ops)
        return self.make_adt(path, names, vals)

    _adt_cache = {}

    def make_adt(self, path, names, vals):
        key = (path, names)
        info = self._adt_cache.get(key)
        if info is None:
            s = strip_generics(path)
            segs = _split_path(s)
            adts = self.prog.layout.adts
            ty = None
            if len(segs) >= 2 and segs[-2] in adts and adts[segs[-2]]["kind"] == "enum":
                a = adts[segs[-2]]
                vi = [n for n, _ in a["variants"]].index(segs[-1])
                ty = segs[-2]
                fl = a["variants"][vi][1]
            elif segs[-1] in adts and adts[segs[-1]]["kind"] == "struct":
                ty = segs[-1]
                vi = 0
                fl = adts[ty]["fields"]
            else:
                raise Unmodelled("aggregate of unknown ADT %s" % path)
            perm = None
            if names is not None:
                perm = [names.index(n) for n in fl]
            info = (ty, vi, perm, len(fl))
            self._adt_cache[key] = info
        ty, vi, perm, nf = info
        if perm is not None:
            vals = tuple(vals[i] for i in perm)
        if len(vals) != nf:
            raise ExecError("field count mismatch building %s" % path)
        return Adt(ty, vi, vals)

    def cast(self, f, fr, rv):
        _, op, ty, kind = rv
        v = self.operand(fr, op)
        if kind.startswith("PointerCoercion") or kind in ("PtrToPtr", "FnPtrToPtr", "Subtype"):
            return v
        if kind == "Transmute":
            if type(v) is BoxU:
                return Ref(v.cell, ())
            return v
        if kind == "IntToInt":
            src = self.op_type(f, op)
            bits, signed = self.int_ty(ty)
            if isinstance(v, bool):
                return 1 if v else 0
            if isinstance(v, int):
                w = v & ((1 << bits) - 1)
                if signed and w >= (1 << (bits - 1)):
                    w -= 1 << bits
                return w
            if z3.is_bool(v):
                return z3.If(v, z3.BitVecVal(1, bits), z3.BitVecVal(0, bits))
            sb = v.size()
            if sb == bits:
                return v
            if sb > bits:
                return z3.Extract(bits - 1, 0, v)
            ssigned = INT_TYPES.get(src, (0, False))[1]
            return z3.SignExt(bits - sb, v) if ssigned else z3.ZeroExt(bits - sb, v)
        raise Unmodelled("cast kind " + kind)

    # -------------------------------------------------------------------- function execution
    def pick_overload(self, f, key, args):
        """several `impl Trait<X> for T` share (Trait, T, method): choose by the first argument"""
        multi = self.prog.by_trait_multi.get(key)
        if not multi:
            return f
        v = self.deref_all(args[0]) if args else None
        want = {str: "str", SymStr: "str", BStr: "str", Seq: "slice"}.get(type(v))
        if type(v) is Adt:
            want = v.ty
        c = [g for g in multi if type_head(g.args[0][1]) == want]
        if len(c) >= 1 and all(type_head(g.args[0][1]) == want for g in c):
            if len(c) == 1 or want == "slice":
                return c[0]
        raise Unmodelled("cannot pick overload for %r with %r" % (key, v))

    def exec_fn(self, f, args):
        self.depth += 1
        if self.depth > self.depth_budget:
            raise BoundExceeded("call depth > %d in %s" % (self.depth_budget, f.name))
        self.fn_hits[f.name] = self.fn_hits.get(f.name, 0) + 1
        fr = [Cell(None) for _ in range(f.nlocals)]
        if len(args) != len(f.args):
            raise ExecError("arity mismatch calling %s: got %d want %d" % (f.name, len(args), len(f.args)))
        for (l, _), a in zip(f.args, args):
            fr[l].v = a
        blocks = f.blocks
        bb = 0
        self.callstack.append(f.name)
        try:
            while True:
                stmts, term = blocks[bb]
                self.steps += len(stmts) + 1
                if self.steps > self.step_budget:
                    raise BoundExceeded("step budget %d exhausted in %s" % (self.step_budget, f.name))
                for st in stmts:
                    if st[0] == "assign":
                        dest = st[1]
                        v = self.rvalue(f, fr, st[2], dest)
                        if dest[1]:
                            self.write(fr, dest, v)
                        else:
                            fr[dest[0]].v = v
                    else:
                        raise Unmodelled("statement %r" % (st[0],))
                k = term[0]
                if k == "goto":
                    bb = term[1]
                elif k == "call":
                    _, dest, callee, aops, ret, raw = term
                    args2 = [self.operand(fr, x) for x in aops]
                    if callee[0] == "op":
                        fv = self.operand(fr, callee[1])
                        v = self.call_value(fv, args2)
                    else:
                        v = self.call(callee[1], args2)
                    if ret is None:
                        raise ExecError("diverging call returned: " + raw)
                    if dest is not None:
                        if dest[1]:
                            self.write(fr, dest, v)
                        else:
                            fr[dest[0]].v = v
                    bb = ret
                elif k == "switch":
                    v = self.operand(fr, term[1])
                    bb = self.switch(v, term[2], term[3])
                elif k == "return":
                    return fr[0].v if fr[0].v is not None else UNIT
                elif k == "assert":
                    _, neg, cop, msg, succ = term
                    c = self.operand(fr, cop)
                    if neg:
                        c = self.not_(c)
                    if self.branch(c, "assert"):
                        bb = succ
                    else:
                        raise Panic("MIR assert failed: " + msg, f.name)
                elif k == "unreachable":
                    raise ExecError("reached `unreachable` in %s bb%d" % (f.name, bb))
                else:
                    raise ExecError("terminator %r in %s" % (k, f.name))
        except (ExecError, Unmodelled) as e:
            if not hasattr(e, "stack"):
                e.stack = list(self.callstack[-4:]) + ["bb%d" % bb]
            raise
        finally:
            self.depth -= 1
            self.callstack.pop()

    def switch(self, v, cases, otherwise):
        if isinstance(v, bool):
            v = 1 if v else 0
        if isinstance(v, int):
            for c, t in cases:
                if c == v:
                    return t
            if otherwise is None or otherwise == "unreachable":
                raise ExecError("switch fell through to unreachable on %r" % (v,))
            return otherwise
        if z3.is_bool(v):
            conds = []
            tg = []
            for c, t in cases:
                conds.append(z3.Not(v) if c == 0 else v)
                tg.append(t)
            if otherwise is not None:
                seen = [c for c, _ in cases]
                if 0 not in seen:
                    conds.append(z3.Not(v)); tg.append(otherwise)
                elif 1 not in seen:
                    conds.append(v); tg.append(otherwise)
            return tg[self.choose(conds, "switch")]
        conds = [v == c for c, _ in cases]
        tg = [t for _, t in cases]
        if otherwise is not None and otherwise != "unreachable":
            conds.append(z3.And(*[v != c for c, _ in cases]))
            tg.append(otherwise)
        return tg[self.choose(conds, "switch")]

    # -------------------------------------------------------------------- calls
    def deref_all(self, v):
        while type(v) is Ref:
            v = getp(v.cell.v, v.path)
        return v

    def dyn_type(self, v):
        v = self.deref_all(v)
        t = type(v)
        if t is Adt:
            return v.ty
        if t is Closure:
            return "closure"
        if t is PyIter:
            return "It:" + v.kind
        return t.__name__

    def call(self, c, args):
        """c: Callee"""
        models = self.models
        prog = self.prog
        if c.kind == "trait":
            dt = self.dyn_type(args[0]) if args else type_head(c.selfty)
            k1 = dt + " as " + c.key
            m = models.get(k1)
            if m is not None:
                self.model_hits[k1] = self.model_hits.get(k1, 0) + 1
                return m(self, c, args)
            f = prog.by_trait.get((c.trait, dt, c.method))
            if f is None and not args:
                f = prog.by_trait.get((c.trait, type_head(c.selfty), c.method))
            if f is None and args:
                # static dispatch on the written self type when the receiver is not the Self value
                # (e.g. <Doc as From<&str>>::from(x))
                f = prog.by_trait.get((c.trait, type_head(c.selfty), c.method)) if type_head(c.selfty) != dt else None
                if f is not None:
                    k2 = type_head(c.selfty) + " as " + c.key
                    m = models.get(k2)
                    if m is not None:
                        self.model_hits[k2] = self.model_hits.get(k2, 0) + 1
                        return m(self, c, args)
            if f is not None:
                if prog.by_trait_multi:
                    for kk in ((c.trait, dt, c.method), (c.trait, type_head(c.selfty), c.method)):
                        if prog.by_trait.get(kk) is f:
                            f = self.pick_overload(f, kk, args)
                            break
                return self.exec_fn(f, args)
            m = models.get(type_head(c.selfty) + " as " + c.key) or models.get(c.key)
            if m is not None:
                self.model_hits[c.key] = self.model_hits.get(c.key, 0) + 1
                return m(self, c, args)
            f = prog.trait_default.get((c.trait, c.method))
            if f is not None:
                return self.exec_fn(f, args)
            raise Unmodelled("trait call %s  (dynamic self type %s)" % (c.raw, dt))
        m = models.get(c.key)
        if m is not None:
            self.model_hits[c.key] = self.model_hits.get(c.key, 0) + 1
            return m(self, c, args)
        segs = c.segs
        if len(segs) >= 2:
            f = prog.by_inherent.get((segs[-2], segs[-1]))
            if f is not None:
                return self.exec_fn(f, args)
            if segs[-2] in prog.traits:
                # Trait::method(self, ..) written without <X as Trait>
                dt = self.dyn_type(args[0]) if args else None
                f = prog.by_trait.get((segs[-2], dt, segs[-1])) or prog.trait_default.get((segs[-2], segs[-1]))
                if f is not None:
                    return self.exec_fn(f, args)
        cands = prog.free.get("::".join(segs[-2:])) or prog.free.get(segs[-1])
        if cands:
            uniq = {id(x): x for x in cands}
            if len(uniq) == 1 or all(self._same_fn(x, cands[0]) for x in cands):
                return self.exec_fn(cands[0], args)
            # disambiguate by crate-qualified suffix
            s = strip_generics(c.raw)
            best = [x for x in uniq.values() if x.name.endswith(s)]
            if len(best) == 1:
                return self.exec_fn(best[0], args)
            raise Unmodelled("ambiguous free function %s: %s" % (c.raw, [x.name for x in uniq.values()]))
        # tuple constructors used as functions
        adts = prog.layout.adts
        if len(segs) >= 2 and segs[-2] in adts and adts[segs[-2]]["kind"] == "enum":
            return self.make_adt(c.raw, None, tuple(args))
        if segs[-1] in adts and adts[segs[-1]]["kind"] == "struct":
            return self.make_adt(c.raw, None, tuple(args))
        raise Unmodelled("call %s  (key %s)" % (c.raw, c.key))

    def _same_fn(self, a, b):
        return a is b or (a.args == b.args and a.ret == b.ret and len(a.blocks) == len(b.blocks) and a.name.split("::")[-1] == b.name.split("::")[-1] and a.src is not None and a.blocks.keys() == b.blocks.keys() and str(a.blocks) == str(b.blocks))

    def call_value(self, fv, args):
        """call a callable value with already-untupled args"""
        fv0 = fv
        fv = self.deref_all(fv)
        t = type(fv)
        if t is Closure:
            fl = self.prog.closures.get(fv.name)
            if fl is not None and len(fl) > 1:
                raise Unmodelled("ambiguous closure %s" % fv.name)
            f = fl[0] if fl else None
            if f is None:
                m = self.models.get("closure:" + fv.name)
                if m is not None:
                    return m(self, fv, args)
                raise Unmodelled("closure body %s" % fv.name)
            want_ref = f.args[0][1].startswith("&")
            if want_ref:
                a0 = fv0 if type(fv0) is Ref else Ref(Cell(fv0, "closure"), ())
                # if fv0 is a ref to a ref, peel to the ref that points at the closure value
                while type(a0) is Ref and type(getp(a0.cell.v, a0.path)) is Ref:
                    a0 = getp(a0.cell.v, a0.path)
            else:
                a0 = fv
            return self.exec_fn(f, [a0] + list(args))
        if t is FnItem:
            return self.call(parse_callee(fv.path), list(args))
        if t is Opaque and fv.tag == "pyfn":
            return fv.payload(self, *args)
        raise Unmodelled("call of value %r" % (fv,))
