"""Text-layer models: strings are concrete-length sequences of (possibly symbolic) bytes (BStr).

Only what the byte-level kernels of bpaf call is modelled: OsStr <-> bytes conversions, UTF-8
validation (`to_str`), char decoding for `chars` / `char_indices`, slicing.  UTF-8 validity of a
symbolic byte string is decided by forking over the well-formed byte ranges of the Unicode
standard (table 3-7), i.e. exactly what core::str::from_utf8 accepts.
"""
import z3

from .values import *
from .engine import Unmodelled, ExecError, Panic
from .models import MODELS, model, NONE, SOME, OK, ERR, rd, rda, wr, sub, as_ref, ITER_EXT, ITER_BACK_EXT, to_bstr

TEXT_MODELS = dict(MODELS)


def tmodel(*keys):
    def deco(fn):
        for k in keys:
            TEXT_MODELS[k] = fn
        return fn
    return deco


def in_range(ex, b, lo, hi, tag="byte"):
    if isinstance(b, int):
        return lo <= b <= hi
    return ex.branch(z3.And(z3.UGE(b, lo), z3.ULE(b, hi)), tag)


def utf8_width_at(ex, bs, p):
    """width (1..4) of the well-formed UTF-8 sequence starting at p, or 0 if ill-formed (forks)"""
    n = len(bs)
    b0 = bs[p]
    if in_range(ex, b0, 0x00, 0x7F):
        return 1

    def cont(i, lo=0x80, hi=0xBF):
        return i < n and in_range(ex, bs[i], lo, hi)
    if in_range(ex, b0, 0xC2, 0xDF):
        return 2 if cont(p + 1) else 0
    if in_range(ex, b0, 0xE0, 0xE0):
        return 3 if cont(p + 1, 0xA0, 0xBF) and cont(p + 2) else 0
    if in_range(ex, b0, 0xE1, 0xEC) or in_range(ex, b0, 0xEE, 0xEF):
        return 3 if cont(p + 1) and cont(p + 2) else 0
    if in_range(ex, b0, 0xED, 0xED):
        return 3 if cont(p + 1, 0x80, 0x9F) and cont(p + 2) else 0
    if in_range(ex, b0, 0xF0, 0xF0):
        return 4 if cont(p + 1, 0x90, 0xBF) and cont(p + 2) and cont(p + 3) else 0
    if in_range(ex, b0, 0xF1, 0xF3):
        return 4 if cont(p + 1) and cont(p + 2) and cont(p + 3) else 0
    if in_range(ex, b0, 0xF4, 0xF4):
        return 4 if cont(p + 1, 0x80, 0x8F) and cont(p + 2) and cont(p + 3) else 0
    return 0


def utf8_valid(ex, bs):
    p = 0
    n = len(bs)
    while p < n:
        w = utf8_width_at(ex, bs, p)
        if w == 0:
            return False
        p += w
    return True


def bv(x, bits):
    return x if is_sym(x) else z3.BitVecVal(x, bits)


def decode_char(ex, bs, p):
    """(code point as int or BitVec32, width) of the char at p of a *valid* UTF-8 string"""
    w = utf8_width_at(ex, bs, p)
    if w == 0:
        raise ExecError("decode of ill-formed UTF-8 (String invariant broken)")
    b = bs[p:p + w]
    if all(isinstance(x, int) for x in b):
        return ord(bytes(b).decode("utf-8")), w
    z = [z3.ZeroExt(24, bv(x, 8)) for x in b]
    if w == 1:
        c = z[0]
    elif w == 2:
        c = ((z[0] & 0x1F) << 6) | (z[1] & 0x3F)
    elif w == 3:
        c = ((z[0] & 0x0F) << 12) | ((z[1] & 0x3F) << 6) | (z[2] & 0x3F)
    else:
        c = ((z[0] & 0x07) << 18) | ((z[1] & 0x3F) << 12) | ((z[2] & 0x3F) << 6) | (z[3] & 0x3F)
    c = z3.simplify(c)
    # remember where the code point came from: re-encoding it yields the original bytes
    tab = getattr(ex, "char_origin", None)
    if tab is None:
        tab = ex.char_origin = {}
    tab[c.get_id()] = (c, tuple(b))
    return c, w


def encode_char(ex, ch):
    """UTF-8 bytes of a char (int or BitVec32 of a Unicode scalar value); forks on the width class"""
    if isinstance(ch, int):
        return tuple(chr(ch).encode("utf-8"))
    tab = getattr(ex, "char_origin", None) or {}
    hit = tab.get(ch.get_id())
    if hit is not None and hit[0].eq(ch):
        return hit[1]
    ch = bv(ch, 32)

    def byte(e):
        return z3.simplify(z3.Extract(7, 0, e))
    if ex.branch(z3.ULT(ch, 0x80), "enc1"):
        return (byte(ch),)
    if ex.branch(z3.ULT(ch, 0x800), "enc2"):
        return (byte(0xC0 | z3.LShR(ch, 6)), byte(0x80 | (ch & 0x3F)))
    if ex.branch(z3.ULT(ch, 0x10000), "enc3"):
        return (byte(0xE0 | z3.LShR(ch, 12)), byte(0x80 | (z3.LShR(ch, 6) & 0x3F)), byte(0x80 | (ch & 0x3F)))
    return (byte(0xF0 | z3.LShR(ch, 18)), byte(0x80 | (z3.LShR(ch, 12) & 0x3F)), byte(0x80 | (z3.LShR(ch, 6) & 0x3F)), byte(0x80 | (ch & 0x3F)))


# ------------------------------------------------------------------------------------------------

@tmodel("OsStrExt::as_bytes", "str::as_bytes", "String::as_bytes", "OsStr::as_encoded_bytes")
def m_as_bytes(ex, c, args):
    v = rda(args[0])
    b = to_bstr(v)
    return Ref(Cell(Seq(b.b), "bytes"), ())


@tmodel("OsStringExt::from_vec", "OsStringExt::into_vec", "OsStrExt::from_bytes")
def m_from_vec(ex, c, args):
    v = rda(args[0])
    if c.method == "into_vec":
        return Seq(to_bstr(v).b)
    return BStr(v.items if type(v) is Seq else to_bstr(v).b)


@tmodel("OsStr::to_str", "OsString::to_str")
def m_to_str(ex, c, args):
    v = rda(args[0])
    if type(v) is BStr:
        if utf8_valid(ex, v.b):
            return SOME(args[0] if type(args[0]) is Ref else v)
        return NONE
    return MODELS["OsStr::to_str"](ex, c, args)


@tmodel("OsString::into_string")
def m_into_string(ex, c, args):
    v = rda(args[0])
    if type(v) is BStr:
        return OK(v) if utf8_valid(ex, v.b) else ERR(v)
    return MODELS["OsString::into_string"](ex, c, args)


@tmodel("str::from_utf8", "String::from_utf8")
def m_from_utf8(ex, c, args):
    v = rda(args[0])
    b = to_bstr(v)
    if utf8_valid(ex, b.b):
        return OK(b)
    return ERR(Opaque("utf8error", ()))


def it_bchars(ex, it):
    s, pos = it.st
    if pos >= len(s.b):
        return None, it
    ch, w = decode_char(ex, s.b, pos)
    return ch, PyIter("bchars", s, pos + w)


def it_bchar_indices(ex, it):
    s, pos = it.st
    if pos >= len(s.b):
        return None, it
    ch, w = decode_char(ex, s.b, pos)
    return (pos, ch), PyIter("bchar_indices", s, pos + w)


ITER_EXT["bchars"] = it_bchars
ITER_EXT["bchar_indices"] = it_bchar_indices


@tmodel("str::chars")
def m_chars(ex, c, args):
    v = rda(args[0])
    if type(v) is BStr:
        return PyIter("bchars", v, 0)
    return MODELS["str::chars"](ex, c, args)


@tmodel("str::char_indices")
def m_char_indices(ex, c, args):
    v = rda(args[0])
    if type(v) is BStr:
        return PyIter("bchar_indices", v, 0)
    return MODELS["str::char_indices"](ex, c, args)


@tmodel("Chars::as_str")
def m_chars_as_str(ex, c, args):
    it = rda(args[0])
    if it.kind == "bchars":
        return BStr(it.st[0].b[it.st[1]:])
    return MODELS["Chars::as_str"](ex, c, args)


@tmodel("char::encode_utf8")
def m_encode_utf8(ex, c, args):
    ch = args[0]
    if isinstance(ch, int):
        return chr(ch)
    raise Unmodelled("encode_utf8 of a symbolic char")


@tmodel("String::push")
def m_string_push(ex, c, args):
    v = rd(args[0])
    ch = args[1]
    if type(v) is BStr or not isinstance(ch, int):
        b = to_bstr(v)
        if isinstance(ch, int):
            wr(args[0], BStr(b.b + tuple(chr(ch).encode("utf-8"))))
            return UNIT
        wr(args[0], BStr(b.b + encode_char(ex, ch)))
        return UNIT
    return MODELS["String::push"](ex, c, args)


@tmodel("String::push_str")
def m_string_push_str(ex, c, args):
    v = rd(args[0])
    s = rda(args[1])
    if type(v) is BStr or type(s) is BStr:
        wr(args[0], BStr(to_bstr(v).b + to_bstr(s).b))
        return UNIT
    return MODELS["String::push_str"](ex, c, args)


def _pat_bytes(p):
    if isinstance(p, int):
        return tuple(chr(p).encode("utf-8"))
    if isinstance(p, str):
        return tuple(p.encode("utf-8"))
    if type(p) is BStr and all(isinstance(b, int) for b in p.b):
        return tuple(p.b)
    raise Unmodelled("symbolic pattern %r" % (p,))


def _match_at(ex, bs, i, pat):
    """does the concrete byte pattern occur at position i of the (symbolic) bytes? forks"""
    if i + len(pat) > len(bs):
        return False
    for k, pb in enumerate(pat):
        b = bs[i + k]
        if isinstance(b, int):
            if b != pb:
                return False
        elif not ex.branch(b == pb, "pat"):
            return False
    return True


def bstr_method(ex, c, args):
    """str methods on byte strings with symbolic bytes; sub-slices stay references into the base"""
    base = args[0]
    v = rda(base)
    bs = list(v.b)
    n = len(bs)
    m = c.method
    a = [rda(x) for x in args[1:]]
    if m == "starts_with":
        return _match_at(ex, bs, 0, _pat_bytes(a[0]))
    if m == "ends_with":
        pat = _pat_bytes(a[0])
        return len(pat) <= n and _match_at(ex, bs, n - len(pat), pat)
    if m == "strip_prefix":
        pat = _pat_bytes(a[0])
        if _match_at(ex, bs, 0, pat):
            return SOME(sub(base, ("sub", len(pat), n)))
        return NONE
    if m == "strip_suffix":
        pat = _pat_bytes(a[0])
        if len(pat) <= n and _match_at(ex, bs, n - len(pat), pat):
            return SOME(sub(base, ("sub", 0, n - len(pat))))
        return NONE
    if m in ("split_once", "find", "contains"):
        pat = _pat_bytes(a[0])
        for i in range(0, n - len(pat) + 1):
            if _match_at(ex, bs, i, pat):
                if m == "find":
                    return SOME(i)
                if m == "contains":
                    return True
                return SOME((sub(base, ("sub", 0, i)), sub(base, ("sub", i + len(pat), n))))
        return False if m == "contains" else NONE
    if m in ("trim_end", "trim_start", "trim"):
        lo, hi = 0, n
        ws = (0x20, 0x0A, 0x09, 0x0D)

        def is_ws(b):
            if isinstance(b, int):
                return b in ws
            return ex.branch(z3.Or(*[b == w for w in ws]), "ws")
        if m in ("trim_end", "trim"):
            while hi > lo and is_ws(bs[hi - 1]):
                hi -= 1
        if m in ("trim_start", "trim"):
            while lo < hi and is_ws(bs[lo]):
                lo += 1
        return sub(base, ("sub", lo, hi))
    if m in ("trim_end_matches", "trim_start_matches"):
        pat = args[1]
        # decode the characters (with their byte spans), then peel from the chosen end
        spans = []
        p = 0
        while p < n:
            ch, w = decode_char(ex, bs, p)
            spans.append((p, p + w, ch))
            p += w

        def hit(ch):
            pv = rda(pat)
            if type(pv) in (Closure, FnItem):
                r = ex.call_value(pat, [ch])
                return ex.branch(r, "trim-pat")
            if isinstance(pv, int):
                return ch == pv if isinstance(ch, int) else ex.branch(ch == pv, "trim-pat")
            raise Unmodelled("trim pattern %r" % (pv,))
        lo, hi = 0, len(spans)
        if m == "trim_end_matches":
            while hi > lo and hit(spans[hi - 1][2]):
                hi -= 1
        else:
            while lo < hi and hit(spans[lo][2]):
                lo += 1
        a_ = spans[lo][0] if lo < len(spans) else n
        b_ = spans[hi - 1][1] if hi > 0 else 0
        if hi <= lo:
            a_ = b_ = (spans[lo][0] if lo < len(spans) else n)
        return sub(base, ("sub", a_, b_))
    if m == "is_char_boundary":
        p = a[0]
        if p == 0 or p == n:
            return True
        if p > n:
            return False
        return not in_range(ex, bs[p], 0x80, 0xBF, "boundary")
    if m == "replace":
        pat = _pat_bytes(a[0])
        rep = _pat_bytes(a[1])
        out = []
        i = 0
        while i < n:
            if _match_at(ex, bs, i, pat):
                out.extend(rep)
                i += len(pat)
            else:
                out.append(bs[i])
                i += 1
        return BStr(tuple(out))
    if m == "bytes":
        return PyIter("vec_into", Seq(tuple(bs)), 0)
    if m == "to_uppercase":
        out = []
        for b in bs:
            if isinstance(b, int):
                out.append(ord(chr(b).upper()) if b < 128 else b)
            else:
                # ASCII letters only: forks on the lower-case range
                if ex.branch(z3.And(z3.UGE(b, 0x61), z3.ULE(b, 0x7A)), "upper"):
                    out.append(b - 0x20)
                else:
                    out.append(b)
        return BStr(tuple(out))
    raise Unmodelled("str::%s on a byte string" % m)


CHAR_CLASSES = {
    "is_ascii": [(0x00, 0x7F)], "is_ascii_graphic": [(0x21, 0x7E)], "is_ascii_digit": [(0x30, 0x39)],
    "is_ascii_uppercase": [(0x41, 0x5A)], "is_ascii_lowercase": [(0x61, 0x7A)], "is_ascii_alphabetic": [(0x41, 0x5A), (0x61, 0x7A)],
    "is_ascii_alphanumeric": [(0x30, 0x39), (0x41, 0x5A), (0x61, 0x7A)], "is_ascii_whitespace": [(0x20, 0x20), (0x09, 0x0A), (0x0C, 0x0D)],
    "is_ascii_punctuation": [(0x21, 0x2F), (0x3A, 0x40), (0x5B, 0x60), (0x7B, 0x7E)], "is_ascii_control": [(0x00, 0x1F), (0x7F, 0x7F)],
}


def sym_char_class(ex, method, ch):
    rng = CHAR_CLASSES.get(method)
    if rng is None:
        raise Unmodelled("char::%s on a symbolic char" % method)
    return ex.branch(z3.Or(*[z3.And(z3.UGE(ch, a), z3.ULE(ch, b)) for a, b in rng]), "charclass")


def collect_string(ex, items):
    """`collect::<String>()` of chars / string pieces, some of them symbolic"""
    out = ()
    for x in items:
        if isinstance(x, str):
            out += tuple(x.encode("utf-8"))
        elif type(x) is BStr:
            out += tuple(x.b)
        elif type(x) is Ref:
            out += to_bstr(rda(x)).b
        else:
            out += encode_char(ex, x)
    return BStr(out)


def install_hooks(ex):
    """hooks the generic models consult for byte strings"""
    ex.bstr_method = bstr_method
    ex.collect_string = collect_string
    ex.sym_char_class = sym_char_class
    def slice_check(ex_, v, a, b):
        # slicing a str panics when a or b is not a char boundary: a boundary is the start of a
        # sequence, i.e. the byte there is not a continuation byte
        for p in (a, b):
            if 0 < p < len(v.b):
                x = v.b[p]
                if in_range(ex_, x, 0x80, 0xBF, "boundary"):
                    raise Panic("byte index %d is not a char boundary" % p)
    ex.bstr_slice_check = slice_check
