"""Semantic models of the std library calls that appear in bpaf's MIR.

Every model is a small Python function  m(ex, callee, args) -> value.  The set of models used by
a run is reported in the evidence (`models_used` with hit counts); a callee with neither MIR
nor a model aborts the run as inconclusive (engine.Unmodelled) - there is no default havoc.
"""
import z3
from .values import *
from .engine import Unmodelled, ExecError, Panic, Halt, parse_callee, type_head, split_top

MODELS = {}


def model(*keys):
    def deco(fn):
        for k in keys:
            MODELS[k] = fn
        return fn
    return deco


# ------------------------------------------------------------------------------------------------
# helpers

NONE = Adt("Option", 0, ())


def SOME(v):
    return Adt("Option", 1, (v,))


def OK(v):
    return Adt("Result", 0, (v,))


def ERR(v):
    return Adt("Result", 1, (v,))


def rd(r):
    """read through one reference"""
    if type(r) is Ref:
        return getp(r.cell.v, r.path) if r.path else r.cell.v
    return r


def rda(r):
    """read through all references"""
    while type(r) is Ref:
        r = getp(r.cell.v, r.path) if r.path else r.cell.v
    return r


def wr(r, v):
    if type(r) is not Ref:
        raise ExecError("write through non-reference %r" % (r,))
    # write through nested references: find the innermost ref that points to a non-ref location
    cur = r
    while True:
        t = getp(cur.cell.v, cur.path) if cur.path else cur.cell.v
        if type(t) is Ref and type(v) is not Ref:
            cur = t
            continue
        break
    cur.cell.v = setp(cur.cell.v, cur.path, v) if cur.path else v


def sub(r, *steps):
    """reference to a sub-location of what r points to (r must point at a non-ref location)"""
    if type(r) is not Ref:
        # a by-value aggregate (e.g. &str literal): box it
        r = Ref(Cell(r, "tmp"), ())
    while True:
        t = getp(r.cell.v, r.path) if r.path else r.cell.v
        if type(t) is Ref:
            r = t
        else:
            break
    return Ref(r.cell, r.path + tuple(steps))


def as_ref(v):
    return v if type(v) is Ref else Ref(Cell(v, "tmp"), ())


def mk_bool(ex, c):
    return c


def val_eq(ex, a, b):
    """structural equality; returns python bool or z3 Bool"""
    a = rda(a)
    b = rda(b)
    ta, tb = type(a), type(b)
    if ta is str or ta is SymStr or tb is str or tb is SymStr:
        if ta is str and tb is str:
            return a == b
        if ta is BStr or tb is BStr:
            return bstr_eq(ex, a, b)
        return ex.str_term(a) == ex.str_term(b)
    if ta is BStr or tb is BStr:
        return bstr_eq(ex, a, b)
    if ta is bool and tb is bool:
        return a == b
    if ta is int and tb is int:
        return a == b
    if is_sym(a) or is_sym(b):
        if ta is bool or tb is bool or (is_sym(a) and z3.is_bool(a)):
            A = a if is_sym(a) else z3.BoolVal(a)
            B = b if is_sym(b) else z3.BoolVal(b)
            return A == B
        bits = a.size() if is_sym(a) else b.size()
        return ex.to_bv(a, bits) == ex.to_bv(b, bits)
    if ta is Adt and tb is Adt:
        if a.ty != b.ty:
            raise ExecError("comparing %s with %s" % (a.ty, b.ty))
        if a.var != b.var:
            return False
        return and_all(ex, [val_eq(ex, x, y) for x, y in zip(a.fields, b.fields)])
    if ta is tuple and tb is tuple:
        return and_all(ex, [val_eq(ex, x, y) for x, y in zip(a, b)])
    if ta is Seq and tb is Seq:
        if len(a.items) != len(b.items):
            return False
        return and_all(ex, [val_eq(ex, x, y) for x, y in zip(a.items, b.items)])
    if (ta is Opaque and (tb is int or is_sym(b))) or (tb is Opaque and (ta is int or is_sym(a))):
        # a parsed value (identified by its source text) vs a literal: never the same representation
        return False
    if ta is Opaque and tb is Opaque:
        if a.tag != b.tag:
            return False
        return val_eq(ex, a.payload, b.payload)
    if a is None or b is None:
        return a is b
    if ta is Closure and tb is Closure:
        return a.name == b.name and val_eq(ex, a.caps, b.caps)
    if ta is FnItem and tb is FnItem:
        return a.path == b.path
    raise Unmodelled("equality of %r and %r" % (a, b))


def bstr_eq(ex, a, b):
    a = to_bstr(a)
    b = to_bstr(b)
    if len(a.b) != len(b.b):
        return False
    return and_all(ex, [byte_eq(x, y) for x, y in zip(a.b, b.b)])


def byte_eq(x, y):
    if isinstance(x, int) and isinstance(y, int):
        return x == y
    return (x if is_sym(x) else z3.BitVecVal(x, 8)) == (y if is_sym(y) else z3.BitVecVal(y, 8))


def to_bstr(v):
    if type(v) is BStr:
        return v
    if type(v) is str:
        return BStr(tuple(v.encode("utf-8", "surrogateescape")))
    if type(v) is Seq:
        return BStr(v.items)
    raise ExecError("not a byte string: %r" % (v,))


def and_all(ex, cs):
    out = []
    for c in cs:
        if c is False:
            return False
        if c is True:
            continue
        out.append(c)
    if not out:
        return True
    return z3.And(*out) if len(out) > 1 else out[0]


def or_all(ex, cs):
    out = []
    for c in cs:
        if c is True:
            return True
        if c is False:
            continue
        out.append(c)
    if not out:
        return False
    return z3.Or(*out) if len(out) > 1 else out[0]


def truth(ex, c, tag=None):
    return ex.branch(c, tag)


def call_fn(ex, f, *args):
    return ex.call_value(f, list(args))


# ------------------------------------------------------------------------------------------------
# Clone / Copy / conversions that are identity on persistent values

@model("Clone::clone", "ToOwned::to_owned", "ToString::to_string", "Borrow::borrow", "AsRef::as_ref",
       "Deref::deref", "DerefMut::deref_mut", "BorrowMut::borrow_mut", "AsMut::as_mut")
def m_clone(ex, c, args):
    if c.method in ("clone", "to_owned", "to_string"):
        v = rda(args[0])
        if c.method == "to_string" and type(v) not in (str, SymStr, BStr):
            if type(v) is int and (c.selfty or "").strip() == "char":
                return chr(v)
            raise Unmodelled("to_string of %r" % (v,))
        return v
    # reference-to-reference conversions keep pointing at the same location
    v = rda(args[0])
    if type(v) is Adt and v.ty == "Cow" and c.method in ("deref", "as_ref", "borrow"):
        inner = v.fields[0]
        return inner if type(inner) in (Ref, str) else sub(args[0], 0)
    return args[0]


@model("Into::into", "From::from")
def m_into(ex, c, args):
    v = args[0]
    # a user-defined `From` impl on the target type is executed from MIR
    if c.method == "into" and c.trait_args:
        tgt = type_head(c.trait_args)
        if type(v) is Adt and v.ty == tgt:
            return v  # impl<T> From<T> for T
        f = ex.prog.by_trait.get(("From", tgt, "from"))
        if f is not None:
            f = ex.pick_overload(f, ("From", tgt, "from"), [v])
            return ex.exec_fn(f, [v])
        if tgt == "Option":
            return SOME(v)
    if c.method == "from":
        tgt = type_head(c.selfty)
        if tgt == "Option":
            return SOME(v)
    # conversions between string-ish / vec-ish owners are identity in this value domain
    return conv_identity(ex, v, c)


def f_accepts(f, selfty):
    """crude overload check for several `impl From<X> for T`: compare the head of the arg type"""
    return type_head(f.args[0][1]) == type_head(selfty) or True


def conv_identity(ex, v, c):
    vv = rda(v) if type(v) is Ref else v
    if type(vv) in (str, SymStr, BStr, Seq, int, bool) or is_sym(vv):
        return vv
    if type(vv) in (Adt, Opaque, tuple, Closure, FnItem):
        return vv
    raise Unmodelled("conversion %s of %r" % (c.raw, v))


@model("str::to_string", "str::to_owned", "str::as_ref", "String::as_str", "OsString::as_os_str", "OsStr::to_os_string",
       "OsStr::to_owned", "String::as_ref", "str::as_bytes", "String::as_bytes", "String::into_bytes", "str::into",
       "String::from", "OsString::from", "OsStr::new", "PathBuf::from", "String::into_boxed_str", "str::as_str",
       "String::borrow", "OsString::as_ref", "OsStr::as_ref", "String::deref", "OsString::deref", "OsString::into_string_unchecked")
def m_str_ident(ex, c, args):
    if c.method in ("to_string", "to_owned", "to_os_string", "from", "into", "into_bytes", "into_boxed_str", "new"):
        return rda(args[0])
    return args[0]


@model("OsStr::to_str", "OsString::to_str")
def m_to_str(ex, c, args):
    # token layer: every string is valid utf-8 unless the harness says otherwise via `nonutf8`
    v = rda(args[0])
    nu = getattr(ex, "nonutf8", None)
    if nu is not None and type(v) is SymStr:
        if ex.branch(nu(v.term), "to_str"):
            return NONE
    return SOME(args[0] if type(args[0]) is Ref else v)


@model("OsStr::to_string_lossy", "OsString::to_string_lossy")
def m_lossy(ex, c, args):
    return Adt("Cow", 0, (args[0],))


@model("OsString::into_string")
def m_into_string(ex, c, args):
    v = rda(args[0])
    nu = getattr(ex, "nonutf8", None)
    if nu is not None and type(v) is SymStr:
        if ex.branch(nu(v.term), "into_string"):
            return ERR(v)
    return OK(v)


# ------------------------------------------------------------------------------------------------
# mem

@model("mem::swap")
def m_swap(ex, c, args):
    a, b = args
    va, vb = rd(a), rd(b)
    wr(a, vb)
    wr(b, va)
    return UNIT


@model("mem::replace")
def m_replace(ex, c, args):
    old = rd(args[0])
    wr(args[0], args[1])
    return old


@model("mem::take")
def m_take(ex, c, args):
    old = rd(args[0])
    wr(args[0], default_like(ex, old, c.generics))
    return old


@model("Option::take")
def m_opt_take(ex, c, args):
    old = rd(args[0])
    wr(args[0], NONE)
    return old


def default_like(ex, old, ty=None):
    t = type(old)
    if t is Seq:
        return Seq(())
    if t is str or t is SymStr:
        return ""
    if t is BStr:
        return BStr(())
    if t is int or (is_sym(old) and not z3.is_bool(old)):
        return 0
    if t is bool or is_sym(old):
        return False
    if t is Adt and old.ty == "Option":
        return NONE
    if t is Adt:
        f = ex.prog.by_trait.get(("Default", old.ty, "default"))
        if f is not None:
            return ex.exec_fn(f, [])  # `impl Default` defined in the crate (e.g. Meta::Skip)
    raise Unmodelled("Default for %r" % (old,))


@model("Default::default")
def m_default(ex, c, args):
    h = type_head(c.selfty)
    if h in ("Vec", "VecDeque", "BTreeSet", "HashSet"):
        return Seq(())
    if h in ("String", "OsString", "PathBuf"):
        return ""
    if h == "Option":
        return NONE
    if h == "bool":
        return False
    if h in ("usize", "u32", "u64", "i32", "isize", "u8"):
        return 0
    f = ex.prog.by_trait.get(("Default", h, "default"))
    if f is not None:
        return ex.exec_fn(f, [])
    raise Unmodelled("Default::default for " + c.selfty)


@model("mem::drop", "mem::forget", "Drop::drop", "ptr::drop_in_place")
def m_drop(ex, c, args):
    return UNIT


# ------------------------------------------------------------------------------------------------
# Box / Rc

@model("Box::new", "Rc::new", "Rc::from", "Arc::new")
def m_box_new(ex, c, args):
    return args[0]


@model("Box::new_uninit")
def m_box_uninit(ex, c, args):
    return BoxU(Cell(None, "boxu"))


@model("boxed::box_assume_init_into_vec_unsafe")
def m_box_into_vec(ex, c, args):
    b = args[0]
    if type(b) is not BoxU:
        raise ExecError("box_assume_init_into_vec_unsafe on %r" % (b,))
    return b.cell.v


@model("slice::into_vec", "slice::to_vec", "Vec::from", "Vec::into_boxed_slice", "Vec::as_slice", "Vec::as_mut_slice",
       "Vec::deref", "Vec::deref_mut", "Vec::as_ref", "Rc::deref", "Rc::as_ref", "Box::as_ref", "Box::deref", "Box::as_mut", "Vec::leak")
def m_vec_ident(ex, c, args):
    if c.method in ("into_vec", "to_vec", "from", "into_boxed_slice"):
        return rda(args[0])
    return args[0]


# ------------------------------------------------------------------------------------------------
# Vec

@model("Vec::new")
def m_vec_new(ex, c, args):
    return Seq(())


@model("Vec::with_capacity")
def m_vec_cap(ex, c, args):
    return Seq(())


@model("Vec::push")
def m_vec_push(ex, c, args):
    v = rd(args[0])
    wr(args[0], Seq(v.items + (args[1],)))
    return UNIT


@model("Vec::pop")
def m_vec_pop(ex, c, args):
    v = rd(args[0])
    if not v.items:
        return NONE
    wr(args[0], Seq(v.items[:-1]))
    return SOME(v.items[-1])


@model("Vec::len", "slice::len", "VecDeque::len")
def m_len(ex, c, args):
    return len(rda(args[0]).items)


@model("Vec::is_empty", "slice::is_empty")
def m_is_empty(ex, c, args):
    return len(rda(args[0]).items) == 0


@model("Vec::clear")
def m_vec_clear(ex, c, args):
    wr(args[0], Seq(()))
    return UNIT


@model("Vec::truncate")
def m_vec_truncate(ex, c, args):
    v = rd(args[0])
    n = args[1]
    if not isinstance(n, int):
        n = ex.concretize(n, list(range(len(v.items) + 1)), "truncate")
        if n is None:
            return UNIT
    wr(args[0], Seq(v.items[:n]))
    return UNIT


@model("Vec::append")
def m_vec_append(ex, c, args):
    a = rd(args[0])
    b = rd(args[1])
    wr(args[0], Seq(a.items + b.items))
    wr(args[1], Seq(()))
    return UNIT


@model("Vec::insert")
def m_vec_insert(ex, c, args):
    v = rd(args[0])
    ix = args[1]
    if not isinstance(ix, int):
        raise Unmodelled("Vec::insert at symbolic index")
    if ix > len(v.items):
        raise Panic("insertion index out of bounds")
    wr(args[0], Seq(v.items[:ix] + (args[2],) + v.items[ix:]))
    return UNIT


@model("Vec::remove")
def m_vec_remove(ex, c, args):
    v = rd(args[0])
    ix = ex.index_check(args[1], len(v.items), "removal index")
    wr(args[0], Seq(v.items[:ix] + v.items[ix + 1:]))
    return v.items[ix]


@model("Vec::first", "slice::first")
def m_first(ex, c, args):
    v = rda(args[0])
    if not v.items:
        return NONE
    return SOME(sub(args[0], 0))


@model("Vec::last", "slice::last")
def m_last(ex, c, args):
    v = rda(args[0])
    if not v.items:
        return NONE
    return SOME(sub(args[0], len(v.items) - 1))


@model("slice::last_mut", "slice::first_mut")
def m_last_mut(ex, c, args):
    v = rda(args[0])
    if not v.items:
        return NONE
    return SOME(sub(args[0], len(v.items) - 1 if c.method == "last_mut" else 0))


@model("Vec::extend", "Extend::extend")
def m_vec_extend(ex, c, args):
    v = rd(args[0])
    it = to_iter(ex, args[1])
    out = list(v.items)
    while True:
        x, it = it_next(ex, it)
        if x is None:
            break
        if type(x) is Ref:
            # `impl Extend<&'a T> for Vec<T> where T: Copy` copies the elements
            ta = getattr(c, "trait_args", None)
            if (ta or "").startswith("&") or _is_copy_val(rd(x)):
                x = rd(x)
        out.append(x)
    wr(args[0], Seq(tuple(out)))
    return UNIT


def _is_copy_val(v):
    return isinstance(v, (int, bool)) or is_sym(v)


@model("Vec::extend_from_slice")
def m_vec_extend_from_slice(ex, c, args):
    v = rd(args[0])
    s = rda(args[1])
    items = s.items if type(s) is Seq else to_bstr(s).b
    wr(args[0], Seq(v.items + tuple(items)))
    return UNIT


@model("vec::from_elem")
def m_from_elem(ex, c, args):
    n = args[1]
    if not isinstance(n, int):
        raise Unmodelled("vec![x; n] with symbolic n")
    return Seq((args[0],) * n)


@model("slice::get", "Vec::get")
def m_get(ex, c, args):
    v = rda(args[0])
    ix = args[1]
    n = len(v.items)
    if type(ix) is Adt:
        raise Unmodelled("slice::get with range")
    if isinstance(ix, int):
        if 0 <= ix < n:
            return SOME(sub(args[0], ix))
        return NONE
    r = ex.concretize(ix, list(range(n)), "get")
    if r is None:
        return NONE
    return SOME(sub(args[0], r))


@model("slice::get_mut", "Vec::get_mut")
def m_get_mut(ex, c, args):
    return m_get(ex, c, args)


@model("slice::contains", "Vec::contains")
def m_contains(ex, c, args):
    v = rda(args[0])
    x = args[1]
    return or_all(ex, [val_eq(ex, y, x) for y in v.items])


@model("slice::iter", "Vec::iter", "slice::iter_mut", "Vec::iter_mut")
def m_slice_iter(ex, c, args):
    v = rda(args[0])
    return PyIter("slice", as_base(args[0]), 0, len(v.items))


def as_base(r):
    """normalise a reference to a sequence into a Ref pointing at the Seq location"""
    if type(r) is not Ref:
        return Ref(Cell(r, "tmpseq"), ())
    while True:
        t = getp(r.cell.v, r.path) if r.path else r.cell.v
        if type(t) is Ref:
            r = t
        else:
            return r


@model("Index::index", "IndexMut::index_mut")
def m_index(ex, c, args):
    base = args[0]
    v = rda(base)
    ix = args[1]
    if type(v) is Adt:
        f = ex.prog.by_trait.get((c.trait, v.ty, c.method))
        if f is not None:
            return ex.exec_fn(f, args)
    if type(v) is str or type(v) is BStr:
        return str_index(ex, base, v, ix)
    if type(v) is not Seq:
        raise Unmodelled("Index on %r" % (v,))
    n = len(v.items)
    if type(ix) is Adt:
        a, b = range_bounds(ex, ix, n)
        return sub(base, ("sub", a, b))
    i = ex.index_check(ix, n)
    return sub(base, i)


def range_bounds(ex, r, n):
    """concretise a Range*/RangeFull over a sequence of length n (forks); panics like std"""
    if r.ty == "Range":
        a, b = r.fields
    elif r.ty == "RangeFrom":
        a, b = r.fields[0], n
    elif r.ty == "RangeTo":
        a, b = 0, r.fields[0]
    elif r.ty == "RangeFull":
        a, b = 0, n
    elif r.ty == "RangeInclusive":
        a, b = r.fields[0], r.fields[1]
        if isinstance(b, int):
            b = b + 1
        else:
            b = b + 1
    else:
        raise Unmodelled("range type " + r.ty)
    if not isinstance(b, int):
        bb = ex.concretize(b, list(range(n + 1)), "range end")
        if bb is None:
            raise Panic("range end index out of range for slice of length %d" % n)
        b = bb
    if b > n:
        raise Panic("range end index %d out of range for slice of length %d" % (b, n))
    if not isinstance(a, int):
        aa = ex.concretize(a, list(range(b + 1)), "range start")
        if aa is None:
            raise Panic("slice index starts past its end / out of range")
        a = aa
    if a > b:
        raise Panic("slice index starts at %d but ends at %d" % (a, b))
    return a, b


# ------------------------------------------------------------------------------------------------
# Range

@model("Range::contains", "RangeBounds::contains")
def m_range_contains(ex, c, args):
    r = rda(args[0])
    x = rda(args[1])
    if r.ty != "Range":
        raise Unmodelled("contains on " + r.ty)
    lo = ex.binop("Le", r.fields[0], x, "usize")
    hi = ex.binop("Lt", x, r.fields[1], "usize")
    return and_all(ex, [lo, hi])


@model("Range::is_empty")
def m_range_is_empty(ex, c, args):
    r = rda(args[0])
    return ex.binop("Ge", r.fields[0], r.fields[1], "usize")


@model("Range::len", "ExactSizeIterator::len")
def m_range_len(ex, c, args):
    r = rda(args[0])
    if type(r) is Adt and r.ty == "Range":
        a, b = r.fields
        if ex.branch(ex.binop("Ge", a, b, "usize")):
            return 0
        return ex.binop("Sub", b, a, "usize")
    if type(r) is PyIter and r.kind == "slice":
        return r.st[2] - r.st[1]
    raise Unmodelled("len of %r" % (r,))


# ------------------------------------------------------------------------------------------------
# PartialEq / Ord

@model("PartialEq::eq")
def m_eq(ex, c, args):
    return val_eq(ex, args[0], args[1])


@model("discriminant", "mem::discriminant")
def m_discriminant(ex, c, args):
    v = rda(args[0])
    if type(v) is not Adt:
        raise Unmodelled("mem::discriminant of %r" % (v,))
    return Opaque("discriminant", (v.ty, v.var))


@model("PartialEq::ne")
def m_ne(ex, c, args):
    return ex.not_(val_eq(ex, args[0], args[1])) if not isinstance(val_eq(ex, args[0], args[1]), bool) else not val_eq(ex, args[0], args[1])


def cmp_vals(ex, a, b, ty="usize"):
    a = rda(a)
    b = rda(b)
    if type(a) is tuple:
        for x, y in zip(a, b):
            o = cmp_vals(ex, x, y, ty)
            if o.var != 1:
                return o
        return Adt("Ordering", 1, ())
    if isinstance(a, bool) and isinstance(b, bool):
        return Adt("Ordering", 0 if a < b else (1 if a == b else 2), ())
    if type(a) is Adt and type(b) is Adt and not a.fields and not b.fields:
        return Adt("Ordering", 0 if a.var < b.var else (1 if a.var == b.var else 2), ())
    return ex.binop("Cmp", a, b, ty)


@model("Ord::cmp", "PartialOrd::partial_cmp")
def m_cmp(ex, c, args):
    ty = type_head(c.selfty or "usize")
    o = cmp_vals(ex, args[0], args[1], ty if ty in ("usize", "u32", "i32", "isize", "u8", "char", "u64", "i64") else "usize")
    return SOME(o) if c.method == "partial_cmp" else o


@model("Ord::max", "cmp::max")
def m_max(ex, c, args):
    a, b = args
    if isinstance(a, int) and isinstance(b, int):
        return max(a, b)
    if ex.branch(ex.binop("Gt", a, b, "usize")):
        return a
    return b


@model("Ord::min", "cmp::min")
def m_min(ex, c, args):
    a, b = args
    if isinstance(a, int) and isinstance(b, int):
        return min(a, b)
    if ex.branch(ex.binop("Lt", b, a, "usize")):
        return b
    return a


@model("PartialOrd::lt", "PartialOrd::le", "PartialOrd::gt", "PartialOrd::ge")
def m_partial_ord(ex, c, args):
    op = {"lt": "Lt", "le": "Le", "gt": "Gt", "ge": "Ge"}[c.method]
    return ex.binop(op, rda(args[0]), rda(args[1]), "usize")


@model("Ordering::then_with")
def m_then_with(ex, c, args):
    if args[0].var != 1:
        return args[0]
    return call_fn(ex, args[1])


@model("Ordering::then")
def m_then(ex, c, args):
    return args[0] if args[0].var != 1 else args[1]


@model("Ordering::reverse")
def m_ord_reverse(ex, c, args):
    return Adt("Ordering", 2 - args[0].var, ())


@model("Ordering::is_eq")
def m_is_eq(ex, c, args):
    return args[0].var == 1


# ------------------------------------------------------------------------------------------------
# integer helpers

@model("num::checked_sub", "usize::checked_sub", "u32::checked_sub", "u64::checked_sub")
def m_checked_sub(ex, c, args):
    a, b = args
    if ex.branch(ex.binop("Lt", a, b, "usize")):
        return NONE
    return SOME(ex.binop("Sub", a, b, "usize"))


@model("num::checked_add", "usize::checked_add", "u32::checked_add", "u64::checked_add")
def m_checked_add(ex, c, args):
    a, b = args
    r, o = ex.binop("AddWithOverflow", a, b, "usize")
    if ex.branch(o):
        return NONE
    return SOME(r)


@model("num::saturating_sub", "usize::saturating_sub", "u32::saturating_sub", "u64::saturating_sub")
def m_saturating_sub(ex, c, args):
    a, b = args
    if ex.branch(ex.binop("Lt", a, b, "usize")):
        return 0
    return ex.binop("Sub", a, b, "usize")


@model("num::saturating_add", "usize::saturating_add", "u32::saturating_add", "u64::saturating_add")
def m_saturating_add(ex, c, args):
    a, b = args
    r, o = ex.binop("AddWithOverflow", a, b, "usize")
    if ex.branch(o):
        return (1 << 64) - 1
    return r


@model("num::wrapping_sub", "usize::wrapping_sub", "u32::wrapping_sub", "u64::wrapping_sub")
def m_wrapping_sub(ex, c, args):
    return ex.binop("Sub", args[0], args[1], "usize")


@model("num::wrapping_add", "usize::wrapping_add", "u32::wrapping_add", "u64::wrapping_add")
def m_wrapping_add(ex, c, args):
    return ex.binop("Add", args[0], args[1], "usize")


@model("num::abs_diff", "usize::abs_diff", "u32::abs_diff", "u64::abs_diff")
def m_abs_diff(ex, c, args):
    a, b = args
    if ex.branch(ex.binop("Lt", a, b, "usize")):
        return ex.binop("Sub", b, a, "usize")
    return ex.binop("Sub", a, b, "usize")


@model("num::pow", "usize::pow", "u32::pow", "u64::pow")
def m_pow(ex, c, args):
    a, b = args
    if isinstance(a, int) and isinstance(b, int):
        return a ** b
    raise Unmodelled("symbolic pow")


# ------------------------------------------------------------------------------------------------
# Option / Result

def is_some_cond(o):
    o = rda(o)
    return o.var == 1


@model("Option::is_some")
def m_is_some(ex, c, args):
    return rda(args[0]).var == 1


@model("Option::is_none")
def m_is_none(ex, c, args):
    return rda(args[0]).var == 0


@model("Result::is_ok")
def m_is_ok(ex, c, args):
    return rda(args[0]).var == 0


@model("Result::is_err")
def m_is_err(ex, c, args):
    return rda(args[0]).var == 1


@model("Option::unwrap", "Option::expect")
def m_unwrap(ex, c, args):
    o = args[0]
    if o.var == 0:
        raise Panic("called `Option::unwrap()` on a `None` value", "/".join(ex.callstack[-2:]))
    return o.fields[0]


@model("Result::unwrap", "Result::expect")
def m_res_unwrap(ex, c, args):
    o = args[0]
    if o.var == 1:
        raise Panic("called `Result::unwrap()` on an `Err` value", "/".join(ex.callstack[-2:]))
    return o.fields[0]


@model("Result::unwrap_err")
def m_res_unwrap_err(ex, c, args):
    o = args[0]
    if o.var == 0:
        raise Panic("called `Result::unwrap_err()` on an `Ok` value")
    return o.fields[0]


@model("Option::unwrap_or", "Result::unwrap_or")
def m_unwrap_or(ex, c, args):
    o = args[0]
    good = 1 if o.ty == "Option" else 0
    return o.fields[0] if o.var == good else args[1]


@model("Option::unwrap_or_default", "Result::unwrap_or_default")
def m_unwrap_or_default(ex, c, args):
    o = args[0]
    good = 1 if o.ty == "Option" else 0
    if o.var == good:
        return o.fields[0]
    g = (c.selfty or c.raw)
    h = type_head(split_top(c.raw[c.raw.find("<") + 1:c.raw.rfind(">")])[0]) if "<" in c.raw else ""
    if h in ("usize", "u32", "u64", "i32"):
        return 0
    if h == "bool":
        return False
    if h in ("String", "OsString"):
        return ""
    if h == "Vec":
        return Seq(())
    raise Unmodelled("unwrap_or_default for " + c.raw)


@model("Option::unwrap_or_else", "Result::unwrap_or_else")
def m_unwrap_or_else(ex, c, args):
    o = args[0]
    if o.ty == "Option":
        return o.fields[0] if o.var == 1 else call_fn(ex, args[1])
    return o.fields[0] if o.var == 0 else call_fn(ex, args[1], o.fields[0])


@model("Option::map")
def m_opt_map(ex, c, args):
    o = args[0]
    if o.var == 0:
        return NONE
    return SOME(call_fn(ex, args[1], o.fields[0]))


@model("Option::map_or")
def m_opt_map_or(ex, c, args):
    o = args[0]
    if o.var == 0:
        return args[1]
    return call_fn(ex, args[2], o.fields[0])


@model("Option::map_or_else")
def m_opt_map_or_else(ex, c, args):
    o = args[0]
    if o.var == 0:
        return call_fn(ex, args[1])
    return call_fn(ex, args[2], o.fields[0])


@model("Option::and_then")
def m_opt_and_then(ex, c, args):
    o = args[0]
    if o.var == 0:
        return NONE
    return call_fn(ex, args[1], o.fields[0])


@model("Option::filter")
def m_opt_filter(ex, c, args):
    o = args[0]
    if o.var == 0:
        return NONE
    if truth(ex, call_fn(ex, args[1], as_ref(o.fields[0]))):
        return o
    return NONE


@model("Option::or")
def m_opt_or(ex, c, args):
    return args[0] if args[0].var == 1 else args[1]


@model("Option::or_else")
def m_opt_or_else(ex, c, args):
    return args[0] if args[0].var == 1 else call_fn(ex, args[1])


@model("Option::and")
def m_opt_and(ex, c, args):
    return args[1] if args[0].var == 1 else NONE


@model("Option::xor")
def m_opt_xor(ex, c, args):
    a, b = args
    if a.var == 1 and b.var == 0:
        return a
    if a.var == 0 and b.var == 1:
        return b
    return NONE


@model("Option::zip")
def m_opt_zip(ex, c, args):
    a, b = args
    if a.var == 1 and b.var == 1:
        return SOME((a.fields[0], b.fields[0]))
    return NONE


@model("Option::ok_or")
def m_ok_or(ex, c, args):
    o = args[0]
    return OK(o.fields[0]) if o.var == 1 else ERR(args[1])


@model("Option::ok_or_else")
def m_ok_or_else(ex, c, args):
    o = args[0]
    return OK(o.fields[0]) if o.var == 1 else ERR(call_fn(ex, args[1]))


@model("Option::as_ref", "Option::as_mut", "Option::as_deref", "Option::as_deref_mut", "Result::as_ref", "Result::as_mut")
def m_opt_as_ref(ex, c, args):
    o = rda(args[0])
    if o.ty == "Option" and o.var == 0:
        return NONE
    return Adt(o.ty, o.var, (sub(args[0], 0),))


@model("Option::copied", "Option::cloned")
def m_opt_copied(ex, c, args):
    o = args[0]
    if o.var == 0:
        return NONE
    return SOME(rda(o.fields[0]))


@model("Option::get_or_insert_with")
def m_get_or_insert_with(ex, c, args):
    o = rd(args[0])
    if o.var == 0:
        wr(args[0], SOME(call_fn(ex, args[1])))
    return sub(args[0], 0)


@model("Option::insert")
def m_opt_insert(ex, c, args):
    wr(args[0], SOME(args[1]))
    return sub(args[0], 0)


@model("Option::replace")
def m_opt_replace(ex, c, args):
    old = rd(args[0])
    wr(args[0], SOME(args[1]))
    return old


@model("Option::transpose")
def m_opt_transpose(ex, c, args):
    o = args[0]
    if o.var == 0:
        return OK(NONE)
    r = o.fields[0]
    if r.var == 0:
        return OK(SOME(r.fields[0]))
    return r


@model("Result::transpose")
def m_res_transpose(ex, c, args):
    r = args[0]
    if r.var == 1:
        return SOME(r)
    o = r.fields[0]
    if o.var == 0:
        return NONE
    return SOME(OK(o.fields[0]))


@model("Result::ok")
def m_res_ok(ex, c, args):
    r = args[0]
    return SOME(r.fields[0]) if r.var == 0 else NONE


@model("Result::err")
def m_res_err(ex, c, args):
    r = args[0]
    return SOME(r.fields[0]) if r.var == 1 else NONE


@model("Result::map")
def m_res_map(ex, c, args):
    r = args[0]
    if r.var == 1:
        return r
    return OK(call_fn(ex, args[1], r.fields[0]))


@model("Result::map_err")
def m_res_map_err(ex, c, args):
    r = args[0]
    if r.var == 0:
        return r
    return ERR(call_fn(ex, args[1], r.fields[0]))


@model("Result::and_then")
def m_res_and_then(ex, c, args):
    r = args[0]
    if r.var == 1:
        return r
    return call_fn(ex, args[1], r.fields[0])


@model("Result::or_else")
def m_res_or_else(ex, c, args):
    r = args[0]
    if r.var == 0:
        return r
    return call_fn(ex, args[1], r.fields[0])


@model("Try::branch")
def m_try_branch(ex, c, args):
    v = args[0]
    if v.ty == "Result":
        if v.var == 0:
            return Adt("ControlFlow", 0, (v.fields[0],))
        return Adt("ControlFlow", 1, (v,))
    if v.ty == "Option":
        if v.var == 1:
            return Adt("ControlFlow", 0, (v.fields[0],))
        return Adt("ControlFlow", 1, (NONE,))
    if v.ty == "ControlFlow":
        if v.var == 0:
            return Adt("ControlFlow", 0, (v.fields[0],))
        return Adt("ControlFlow", 1, (v,))
    raise Unmodelled("Try::branch on " + v.ty)


@model("FromResidual::from_residual")
def m_from_residual(ex, c, args):
    return args[0]


@model("Try::from_output")
def m_from_output(ex, c, args):
    h = type_head(c.selfty)
    if h == "Option":
        return SOME(args[0])
    if h == "Result":
        return OK(args[0])
    if h == "ControlFlow":
        return Adt("ControlFlow", 0, (args[0],))
    raise Unmodelled("from_output " + c.selfty)


# ------------------------------------------------------------------------------------------------
# closures / fn traits

@model("Fn::call", "FnMut::call_mut", "FnOnce::call_once")
def m_fn_call(ex, c, args):
    tup = args[1]
    if type(tup) is not tuple:
        raise ExecError("Fn::call with non-tuple args %r" % (tup,))
    return ex.call_value(args[0], list(tup))


# ------------------------------------------------------------------------------------------------
# iterators

def to_iter(ex, v):
    """IntoIterator::into_iter"""
    if type(v) is PyIter:
        return v
    if type(v) is Ref:
        t = rda(v)
        if type(t) is Seq:
            return PyIter("slice", as_base(v), 0, len(t.items))
        if type(t) is Adt and t.ty == "Option":
            return PyIter("vec_into", Seq((sub(v, 0),)) if t.var == 1 else Seq(()), 0)
        if type(t) is PyIter:
            return PyIter("byref", v)
        if type(t) is Adt:
            f = ex.prog.by_trait.get(("IntoIterator", "&" + t.ty, "into_iter"))
            if f is not None:
                return ex.exec_fn(f, [v])  # `impl IntoIterator for &T` defined in the crate
            return PyIter("byref", v)
        raise Unmodelled("into_iter of reference to %r" % (t,))
    if type(v) is Seq:
        return PyIter("vec_into", v, 0)
    if type(v) is Adt:
        if v.ty == "Option":
            return PyIter("vec_into", Seq((v.fields[0],)) if v.var == 1 else Seq(()), 0)
        return v  # Range and MIR-defined iterators
    raise Unmodelled("into_iter of %r" % (v,))


def it_next(ex, it):
    """returns (item or None, new iterator)"""
    t = type(it)
    if t is Adt:
        if it.ty == "Range":
            a, b = it.fields
            if truth(ex, ex.binop("Lt", a, b, "usize"), "range"):
                return a, Adt("Range", 0, (ex.binop("Add", a, 1, "usize"), b))
            return None, it
        if it.ty == "RangeFrom":
            a = it.fields[0]
            return a, Adt("RangeFrom", 0, (ex.binop("Add", a, 1, "usize"),))
        if it.ty == "RangeInclusive":
            a, b, exhausted = it.fields
            if exhausted is True:
                return None, it
            if truth(ex, ex.binop("Lt", a, b, "usize"), "range"):
                return a, Adt("RangeInclusive", 0, (ex.binop("Add", a, 1, "usize"), b, False))
            if truth(ex, ex.binop("Eq", a, b, "usize"), "range"):
                return a, Adt("RangeInclusive", 0, (a, b, True))
            return None, it
        f = ex.prog.by_trait.get(("Iterator", it.ty, "next"))
        if f is None:
            raise Unmodelled("Iterator::next for " + it.ty)
        cell = Cell(it, "iter")
        r = ex.exec_fn(f, [Ref(cell, ())])
        return (r.fields[0] if r.var == 1 else None), cell.v
    if t is not PyIter:
        raise Unmodelled("next on %r" % (it,))
    k = it.kind
    st = it.st
    if k == "slice":
        base, pos, end = st
        if pos >= end:
            return None, it
        return Ref(base.cell, base.path + (pos,)), PyIter("slice", base, pos + 1, end)
    if k == "vec_into":
        seq, pos = st
        if pos >= len(seq.items):
            return None, it
        return seq.items[pos], PyIter("vec_into", seq, pos + 1)
    if k == "byref":
        r = st[0]
        inner = rd(r)
        x, inner2 = it_next(ex, inner)
        wr(r, inner2)
        return x, it
    if k == "zip":
        a, b = st
        x, a2 = it_next(ex, a)
        if x is None:
            return None, PyIter("zip", a2, b)
        y, b2 = it_next(ex, b)
        if y is None:
            return None, PyIter("zip", a2, b2)
        return (x, y), PyIter("zip", a2, b2)
    if k == "enumerate":
        inner, n = st
        x, i2 = it_next(ex, inner)
        if x is None:
            return None, PyIter("enumerate", i2, n)
        return (n, x), PyIter("enumerate", i2, ex.binop("Add", n, 1, "usize"))
    if k == "copied":
        x, i2 = it_next(ex, st[0])
        if x is None:
            return None, PyIter("copied", i2)
        return rda(x), PyIter("copied", i2)
    if k == "skip":
        inner, n = st
        while n > 0:
            x, inner = it_next(ex, inner)
            n -= 1
            if x is None:
                return None, PyIter("skip", inner, 0)
        x, inner = it_next(ex, inner)
        return x, PyIter("skip", inner, 0)
    if k == "take":
        inner, n = st
        if n == 0:
            return None, it
        x, inner = it_next(ex, inner)
        return x, PyIter("take", inner, n - 1 if x is not None else 0)
    if k == "take_while":
        inner, f, done = st
        if done:
            return None, it
        x, inner = it_next(ex, inner)
        if x is None:
            return None, PyIter("take_while", inner, f, True)
        if truth(ex, call_fn(ex, f, as_ref(x)), "take_while"):
            return x, PyIter("take_while", inner, f, False)
        return None, PyIter("take_while", inner, f, True)
    if k == "skip_while":
        inner, f, started = st
        while True:
            x, inner = it_next(ex, inner)
            if x is None:
                return None, PyIter("skip_while", inner, f, True)
            if started or not truth(ex, call_fn(ex, f, as_ref(x)), "skip_while"):
                return x, PyIter("skip_while", inner, f, True)
    if k == "filter":
        inner, f = st
        while True:
            x, inner = it_next(ex, inner)
            if x is None:
                return None, PyIter("filter", inner, f)
            if truth(ex, call_fn(ex, f, as_ref(x)), "filter"):
                return x, PyIter("filter", inner, f)
    if k == "map":
        inner, f = st
        x, inner = it_next(ex, inner)
        if x is None:
            return None, PyIter("map", inner, f)
        return call_fn(ex, f, x), PyIter("map", inner, f)
    if k == "filter_map":
        inner, f = st
        while True:
            x, inner = it_next(ex, inner)
            if x is None:
                return None, PyIter("filter_map", inner, f)
            r = call_fn(ex, f, x)
            if r.var == 1:
                return r.fields[0], PyIter("filter_map", inner, f)
    if k == "flat_map":
        inner, f, cur = st
        while True:
            if cur is not None:
                y, cur = it_next(ex, cur)
                if y is not None:
                    return y, PyIter("flat_map", inner, f, cur)
                cur = None
            x, inner = it_next(ex, inner)
            if x is None:
                return None, PyIter("flat_map", inner, f, None)
            cur = to_iter(ex, call_fn(ex, f, x)) if f is not None else to_iter(ex, x)
    if k == "chain":
        a, b = st
        if a is not None:
            x, a = it_next(ex, a)
            if x is not None:
                return x, PyIter("chain", a, b)
            a = None
        x, b = it_next(ex, b)
        return x, PyIter("chain", a, b)
    if k == "rev":
        x, inner = it_next_back(ex, st[0])
        return x, PyIter("rev", inner)
    if k == "from_fn":
        r = call_fn(ex, st[0])
        return (r.fields[0] if r.var == 1 else None), it
    if k == "peekable":
        inner, peeked = st
        if peeked is not None:
            return (peeked[0] if peeked else None), PyIter("peekable", inner, None)
        x, inner = it_next(ex, inner)
        return x, PyIter("peekable", inner, None)
    if k == "chars":
        s, pos = st
        if pos >= len(s):
            return None, it
        return ord(s[pos]), PyIter("chars", s, pos + 1)
    if k == "char_indices":
        s, pos, boff = st
        if pos >= len(s):
            return None, it
        ch = s[pos]
        return (boff, ord(ch)), PyIter("char_indices", s, pos + 1, boff + len(ch.encode("utf-8", "surrogateescape")))
    if k == "once":
        if st[0] is None:
            return None, it
        return st[0], PyIter("once", None)
    if k == "empty":
        return None, it
    if k == "inspect":
        inner, f = st
        x, inner = it_next(ex, inner)
        if x is not None:
            call_fn(ex, f, as_ref(x))
        return x, PyIter("inspect", inner, f)
    h = ITER_EXT.get(k)
    if h is not None:
        return h(ex, it)
    raise Unmodelled("iterator kind " + k)


ITER_EXT = {}
ITER_BACK_EXT = {}


def it_next_back(ex, it):
    t = type(it)
    if t is PyIter:
        k = it.kind
        st = it.st
        if k == "slice":
            base, pos, end = st
            if pos >= end:
                return None, it
            return Ref(base.cell, base.path + (end - 1,)), PyIter("slice", base, pos, end - 1)
        if k == "vec_into":
            seq, pos = st
            if pos >= len(seq.items):
                return None, it
            return seq.items[-1], PyIter("vec_into", Seq(seq.items[:-1]), pos)
        if k == "chars":
            s, pos = st
            if pos >= len(s):
                return None, it
            return ord(s[-1]), PyIter("chars", s[:-1], pos)
        if k == "copied":
            x, i2 = it_next_back(ex, st[0])
            return (rda(x) if x is not None else None), PyIter("copied", i2)
        if k == "map":
            x, i2 = it_next_back(ex, st[0])
            if x is None:
                return None, PyIter("map", i2, st[1])
            return call_fn(ex, st[1], x), PyIter("map", i2, st[1])
        if k == "enumerate":
            inner, n = st
            # needs exact size
            ln = it_len(ex, inner)
            x, i2 = it_next_back(ex, inner)
            if x is None:
                return None, PyIter("enumerate", i2, n)
            return (n + ln - 1, x), PyIter("enumerate", i2, n)
        if k == "rev":
            x, inner = it_next(ex, st[0])
            return x, PyIter("rev", inner)
        h = ITER_BACK_EXT.get(k)
        if h is not None:
            return h(ex, it)
    if t is Adt and it.ty == "Range":
        a, b = it.fields
        if truth(ex, ex.binop("Lt", a, b, "usize"), "range"):
            b2 = ex.binop("Sub", b, 1, "usize")
            return b2, Adt("Range", 0, (a, b2))
        return None, it
    raise Unmodelled("next_back on %r" % (it,))


def it_len(ex, it):
    if type(it) is PyIter:
        if it.kind == "slice":
            return it.st[2] - it.st[1]
        if it.kind == "vec_into":
            return len(it.st[0].items) - it.st[1]
        if it.kind in ("copied", "map", "enumerate", "rev"):
            return it_len(ex, it.st[0])
        if it.kind == "chars":
            return len(it.st[0]) - it.st[1]
    raise Unmodelled("len of iterator %r" % (it,))


@model("IntoIterator::into_iter")
def m_into_iter(ex, c, args):
    return to_iter(ex, args[0])


@model("Iterator::next")
def m_next(ex, c, args):
    r = args[0]
    it = rd(r)
    x, it2 = it_next(ex, it)
    wr(r, it2)
    return NONE if x is None else SOME(x)


@model("DoubleEndedIterator::next_back")
def m_next_back(ex, c, args):
    r = args[0]
    it = rd(r)
    x, it2 = it_next_back(ex, it)
    wr(r, it2)
    return NONE if x is None else SOME(x)


def _adapt(kind):
    def m(ex, c, args):
        return PyIter(kind, to_iter_val(ex, args[0]), *args[1:])
    return m


def to_iter_val(ex, v):
    """self argument of an adaptor (by value, or &mut I via by_ref)"""
    if type(v) is Ref:
        return PyIter("byref", v)
    return v


MODELS["Iterator::zip"] = lambda ex, c, a: PyIter("zip", to_iter_val(ex, a[0]), to_iter(ex, a[1]))
MODELS["Iterator::enumerate"] = lambda ex, c, a: PyIter("enumerate", to_iter_val(ex, a[0]), 0)
MODELS["Iterator::copied"] = lambda ex, c, a: PyIter("copied", to_iter_val(ex, a[0]))
MODELS["Iterator::cloned"] = lambda ex, c, a: PyIter("copied", to_iter_val(ex, a[0]))
MODELS["Iterator::take_while"] = lambda ex, c, a: PyIter("take_while", to_iter_val(ex, a[0]), a[1], False)
MODELS["Iterator::skip_while"] = lambda ex, c, a: PyIter("skip_while", to_iter_val(ex, a[0]), a[1], False)
MODELS["Iterator::filter"] = lambda ex, c, a: PyIter("filter", to_iter_val(ex, a[0]), a[1])
MODELS["Iterator::map"] = lambda ex, c, a: PyIter("map", to_iter_val(ex, a[0]), a[1])
MODELS["Iterator::filter_map"] = lambda ex, c, a: PyIter("filter_map", to_iter_val(ex, a[0]), a[1])
MODELS["Iterator::flat_map"] = lambda ex, c, a: PyIter("flat_map", to_iter_val(ex, a[0]), a[1], None)
MODELS["Iterator::flatten"] = lambda ex, c, a: PyIter("flat_map", to_iter_val(ex, a[0]), None, None)
MODELS["Iterator::chain"] = lambda ex, c, a: PyIter("chain", to_iter_val(ex, a[0]), to_iter(ex, a[1]))
MODELS["Iterator::rev"] = lambda ex, c, a: PyIter("rev", to_iter_val(ex, a[0]))
MODELS["Iterator::peekable"] = lambda ex, c, a: PyIter("peekable", to_iter_val(ex, a[0]), None)
MODELS["Iterator::by_ref"] = lambda ex, c, a: a[0]
MODELS["Iterator::inspect"] = lambda ex, c, a: PyIter("inspect", to_iter_val(ex, a[0]), a[1])
MODELS["Iterator::fuse"] = lambda ex, c, a: to_iter_val(ex, a[0])
MODELS["iter::from_fn"] = lambda ex, c, a: PyIter("from_fn", a[0])
MODELS["iter::once"] = lambda ex, c, a: PyIter("once", a[0])
MODELS["iter::empty"] = lambda ex, c, a: PyIter("empty")


@model("Iterator::skip")
def m_skip(ex, c, args):
    n = args[1]
    inner = to_iter_val(ex, args[0])
    if not isinstance(n, int):
        ln = it_len(ex, inner)
        c_ = ex.concretize(n, list(range(ln + 1)), "skip")
        n = ln + 1 if c_ is None else c_
    return PyIter("skip", inner, n)


@model("Iterator::take")
def m_it_take(ex, c, args):
    n = args[1]
    if not isinstance(n, int):
        raise Unmodelled("take(symbolic)")
    return PyIter("take", to_iter_val(ex, args[0]), n)


@model("Iterator::nth")
def m_nth(ex, c, args):
    r = args[0]
    it = rd(r)
    n = args[1]
    if not isinstance(n, int):
        raise Unmodelled("nth(symbolic)")
    x = None
    for _ in range(n + 1):
        x, it = it_next(ex, it)
        if x is None:
            break
    wr(r, it)
    return NONE if x is None else SOME(x)


@model("Peekable::peek")
def m_peek(ex, c, args):
    r = args[0]
    it = rd(r)
    inner, peeked = it.st
    if peeked is None:
        x, inner = it_next(ex, inner)
        peeked = (x,) if x is not None else ()
        wr(r, PyIter("peekable", inner, peeked))
    if not peeked:
        return NONE
    return SOME(as_ref(peeked[0]))


def _consume(ex, args):
    """returns (iterator value, writeback) for consumer methods taking self or &mut self"""
    a = args[0]
    if type(a) is Ref:
        return rd(a), (lambda it: wr(a, it))
    return a, (lambda it: None)


@model("Iterator::find")
def m_find(ex, c, args):
    it, wb = _consume(ex, args)
    f = args[1]
    while True:
        x, it = it_next(ex, it)
        if x is None:
            wb(it)
            return NONE
        if truth(ex, call_fn(ex, f, as_ref(x)), "find"):
            wb(it)
            return SOME(x)


@model("Iterator::find_map")
def m_find_map(ex, c, args):
    it, wb = _consume(ex, args)
    f = args[1]
    while True:
        x, it = it_next(ex, it)
        if x is None:
            wb(it)
            return NONE
        r = call_fn(ex, f, x)
        if r.var == 1:
            wb(it)
            return r


@model("Iterator::any")
def m_any(ex, c, args):
    it, wb = _consume(ex, args)
    f = args[1]
    while True:
        x, it = it_next(ex, it)
        if x is None:
            wb(it)
            return False
        if truth(ex, call_fn(ex, f, x), "any"):
            wb(it)
            return True


@model("Iterator::eq")
def m_it_eq(ex, c, args):
    """element-wise equality of two iterators (the second argument is any IntoIterator)"""
    it, wb = _consume(ex, args)
    other = to_iter(ex, rda(args[1]) if type(args[1]) is Ref else args[1])
    while True:
        x, it = it_next(ex, it)
        y, other = it_next(ex, other)
        if x is None or y is None:
            return x is None and y is None
        if not truth(ex, val_eq(ex, x, y), "iter-eq"):
            return False


@model("Iterator::all")
def m_all(ex, c, args):
    it, wb = _consume(ex, args)
    f = args[1]
    while True:
        x, it = it_next(ex, it)
        if x is None:
            wb(it)
            return True
        if not truth(ex, call_fn(ex, f, x), "all"):
            wb(it)
            return False


@model("Iterator::position")
def m_position(ex, c, args):
    it, wb = _consume(ex, args)
    f = args[1]
    n = 0
    while True:
        x, it = it_next(ex, it)
        if x is None:
            wb(it)
            return NONE
        if truth(ex, call_fn(ex, f, x), "position"):
            wb(it)
            return SOME(n)
        n += 1


@model("Iterator::count")
def m_count(ex, c, args):
    it, wb = _consume(ex, args)
    n = 0
    while True:
        x, it = it_next(ex, it)
        if x is None:
            return n
        n += 1


@model("Iterator::last")
def m_it_last(ex, c, args):
    it, wb = _consume(ex, args)
    last = None
    while True:
        x, it = it_next(ex, it)
        if x is None:
            return NONE if last is None else SOME(last)
        last = x


@model("Iterator::for_each")
def m_for_each(ex, c, args):
    it, wb = _consume(ex, args)
    while True:
        x, it = it_next(ex, it)
        if x is None:
            return UNIT
        call_fn(ex, args[1], x)


@model("Iterator::fold")
def m_fold(ex, c, args):
    it, wb = _consume(ex, args)
    acc = args[1]
    while True:
        x, it = it_next(ex, it)
        if x is None:
            return acc
        acc = call_fn(ex, args[2], acc, x)


@model("Iterator::sum")
def m_sum(ex, c, args):
    it, wb = _consume(ex, args)
    acc = 0
    while True:
        x, it = it_next(ex, it)
        if x is None:
            return acc
        r, o = ex.binop("AddWithOverflow", acc, rda(x), "usize")
        if ex.branch(o):
            raise Panic("attempt to add with overflow (Iterator::sum)")
        acc = r


@model("Iterator::max_by_key", "Iterator::min_by_key")
def m_max_by_key(ex, c, args):
    it, wb = _consume(ex, args)
    f = args[1]
    best = None
    bestk = None
    want_max = c.method == "max_by_key"
    while True:
        x, it = it_next(ex, it)
        if x is None:
            return NONE if best is None else SOME(best)
        k = call_fn(ex, f, as_ref(x))
        if best is None:
            best, bestk = x, k
            continue
        o = cmp_vals(ex, bestk, k)
        # max_by_key returns the last maximal element, min_by_key the first minimal one
        if want_max:
            if o.var != 2:
                best, bestk = x, k
        else:
            if o.var == 2:
                best, bestk = x, k


@model("Iterator::max", "Iterator::min")
def m_it_max(ex, c, args):
    it, wb = _consume(ex, args)
    best = None
    want_max = c.method == "max"
    while True:
        x, it = it_next(ex, it)
        if x is None:
            return NONE if best is None else SOME(best)
        if best is None:
            best = x
            continue
        o = cmp_vals(ex, best, x)
        if want_max:
            if o.var != 2:
                best = x
        elif o.var == 2:
            best = x


@model("Iterator::collect", "FromIterator::from_iter")
def m_collect(ex, c, args):
    it = to_iter(ex, args[0]) if type(args[0]) is not PyIter else args[0]
    tgt = (c.generics or c.selfty or "").strip()
    h = type_head(tgt)
    if h == "Result":
        out = []
        while True:
            x, it = it_next(ex, it)
            if x is None:
                return OK(collect_into(ex, out, result_ok_type(tgt)))
            if x.var == 1:
                return x
            out.append(x.fields[0])
    if h == "Option":
        out = []
        while True:
            x, it = it_next(ex, it)
            if x is None:
                return SOME(collect_into(ex, out, result_ok_type(tgt)))
            if x.var == 0:
                return NONE
            out.append(x.fields[0])
    out = []
    while True:
        x, it = it_next(ex, it)
        if x is None:
            break
        out.append(x)
    return collect_into(ex, out, tgt)


def result_ok_type(tgt):
    i = tgt.find("<")
    inner = tgt[i + 1:tgt.rfind(">")]
    return split_top(inner)[0]


def collect_into(ex, items, tgt):
    h = type_head(tgt)
    if h in ("Vec", "C", "_", "VecDeque", "slice", "Box", "Rc"):
        return Seq(tuple(items))
    if h in ("String", "OsString"):
        if all(isinstance(x, int) for x in items):
            return "".join(chr(x) for x in items)
        if all(isinstance(x, str) for x in items):
            return "".join(items)
        hook = getattr(ex, "collect_string", None)
        if hook:
            return hook(ex, items)
        raise Unmodelled("collect::<String> of symbolic pieces")
    if h in ("BTreeSet", "HashSet", "BTreeMap", "HashMap"):
        raise Unmodelled("collect into " + h)
    raise Unmodelled("collect into " + tgt)


@model("slice::join", "Vec::join")
def m_slice_join(ex, c, args):
    v = rda(args[0])
    sep = rda(args[1])
    parts = [rda(x) for x in v.items]
    if isinstance(sep, str) and all(isinstance(x, str) for x in parts):
        return sep.join(parts)
    raise Unmodelled("join of non-concrete strings")


@model("Iterator::size_hint")
def m_size_hint(ex, c, args):
    return (0, NONE)


@model("slice::sort", "slice::sort_unstable", "slice::sort_by", "slice::sort_by_key", "slice::sort_unstable_by_key", "Vec::dedup", "Vec::sort", "Vec::dedup_by_key")
def m_sort(ex, c, args):
    v = rda(args[0])
    if len(v.items) <= 1:
        return UNIT
    raise Unmodelled(c.key + " on len>1")


@model("slice::reverse")
def m_reverse(ex, c, args):
    v = rda(args[0])
    wr(as_base(args[0]), Seq(tuple(reversed(v.items))))
    return UNIT


@model("Vec::drain", "Vec::into_iter")
def m_drain(ex, c, args):
    if c.method == "into_iter":
        return PyIter("vec_into", args[0], 0)
    v = rd(args[0])
    r = args[1]
    a, b = range_bounds(ex, r, len(v.items))
    wr(args[0], Seq(v.items[:a] + v.items[b:]))
    return PyIter("vec_into", Seq(v.items[a:b]), 0)


@model("Vec::retain")
def m_retain(ex, c, args):
    v = rd(args[0])
    out = []
    for x in v.items:
        if truth(ex, call_fn(ex, args[1], as_ref(x)), "retain"):
            out.append(x)
    wr(args[0], Seq(tuple(out)))
    return UNIT


@model("slice::split_first")
def m_split_first(ex, c, args):
    v = rda(args[0])
    if not v.items:
        return NONE
    return SOME((sub(args[0], 0), sub(args[0], ("sub", 1, len(v.items)))))


@model("slice::split_last")
def m_split_last(ex, c, args):
    v = rda(args[0])
    if not v.items:
        return NONE
    n = len(v.items)
    return SOME((sub(args[0], n - 1), sub(args[0], ("sub", 0, n - 1))))


@model("slice::split_at")
def m_split_at(ex, c, args):
    v = rda(args[0])
    n = len(v.items)
    k = args[1]
    if not isinstance(k, int):
        k = ex.concretize(k, list(range(n + 1)), "split_at")
        if k is None:
            raise Panic("mid > len")
    if k > n:
        raise Panic("mid > len")
    return (sub(args[0], ("sub", 0, k)), sub(args[0], ("sub", k, n)))


@model("slice::windows", "slice::chunks")
def m_windows(ex, c, args):
    raise Unmodelled(c.key)


@model("slice::concat")
def m_concat(ex, c, args):
    raise Unmodelled(c.key)


# ------------------------------------------------------------------------------------------------
# token-layer strings

@model("String::new", "OsString::new", "PathBuf::new")
def m_string_new(ex, c, args):
    return ""


@model("String::with_capacity")
def m_string_cap(ex, c, args):
    return ""


@model("String::is_empty", "str::is_empty", "OsStr::is_empty", "OsString::is_empty")
def m_str_is_empty(ex, c, args):
    v = rda(args[0])
    if type(v) is str:
        return v == ""
    if type(v) is BStr:
        return len(v.b) == 0
    return ex.str_term(v) == ex.intern("")


@model("String::clear")
def m_string_clear(ex, c, args):
    v = rd(args[0])
    wr(args[0], BStr(()) if type(v) is BStr else "")
    return UNIT


@model("String::push")
def m_string_push(ex, c, args):
    v = rd(args[0])
    ch = args[1]
    if type(v) is str and isinstance(ch, int):
        wr(args[0], v + chr(ch))
        return UNIT
    hook = getattr(ex, "string_push", None)
    if hook:
        return hook(ex, args[0], v, ch)
    raise Unmodelled("String::push symbolic")


@model("String::push_str")
def m_string_push_str(ex, c, args):
    v = rd(args[0])
    s = rda(args[1])
    if type(v) is str and type(s) is str:
        wr(args[0], v + s)
        return UNIT
    hook = getattr(ex, "string_push_str", None)
    if hook:
        return hook(ex, args[0], v, s)
    raise Unmodelled("String::push_str symbolic")


@model("str::len", "String::len", "OsStr::len", "OsString::len")
def m_str_len(ex, c, args):
    v = rda(args[0])
    if type(v) is str:
        return len(v.encode("utf-8", "surrogateescape"))
    if type(v) is BStr:
        return len(v.b)
    hook = getattr(ex, "sym_str_len", None)
    if hook:
        return hook(ex, v)
    raise Unmodelled("len of symbolic token string")


@model("str::chars")
def m_chars(ex, c, args):
    v = rda(args[0])
    if type(v) is str:
        return PyIter("chars", v, 0)
    h = getattr(ex, "bstr_chars", None)
    if h and type(v) is BStr:
        return h(ex, v)
    raise Unmodelled("chars of %r" % (v,))


@model("str::char_indices")
def m_char_indices(ex, c, args):
    v = rda(args[0])
    if type(v) is str:
        return PyIter("char_indices", v, 0, 0)
    h = getattr(ex, "bstr_char_indices", None)
    if h and type(v) is BStr:
        return h(ex, v)
    raise Unmodelled("char_indices of %r" % (v,))


@model("Chars::as_str")
def m_chars_as_str(ex, c, args):
    it = rda(args[0])
    if it.kind == "chars":
        return it.st[0][it.st[1]:]
    raise Unmodelled("Chars::as_str")


@model("str::starts_with", "str::ends_with", "str::contains", "str::strip_prefix", "str::strip_suffix", "str::split_once",
       "str::find", "str::trim", "str::trim_end", "str::trim_start", "str::split", "str::lines", "str::to_lowercase",
       "str::to_uppercase", "str::replace", "str::split_whitespace", "str::rfind", "str::trim_start_matches", "str::trim_end_matches",
       "str::bytes", "str::is_char_boundary", "str::repeat", "str::eq_ignore_ascii_case", "str::to_ascii_lowercase",
       "str::trim_end_matches", "str::trim_start_matches")
def m_str_concrete(ex, c, args):
    v = rda(args[0])
    if type(v) is BStr:
        h = getattr(ex, "bstr_method", None)
        if h:
            return h(ex, c, args)
        raise Unmodelled(c.key + " on byte string (text layer not loaded)")
    if type(v) is not str:
        raise Unmodelled(c.key + " on symbolic token string")
    m = c.method
    a = [rda(x) for x in args[1:]]

    def pat(p):
        if isinstance(p, int):
            return chr(p)
        if isinstance(p, str):
            return p
        raise Unmodelled("%s with pattern %r" % (c.key, p))
    if m in ("trim_end_matches", "trim_start_matches"):
        pv = a[0]
        def hit(ch):
            if type(pv) in (Closure, FnItem):
                return ex.branch(ex.call_value(args[1], [ord(ch)]), "trim-pat")
            return ch == pat(pv)
        s_ = v
        if m == "trim_end_matches":
            while s_ and hit(s_[-1]):
                s_ = s_[:-1]
        else:
            while s_ and hit(s_[0]):
                s_ = s_[1:]
        return s_
    if m == "starts_with":
        return v.startswith(pat(a[0]))
    if m == "ends_with":
        return v.endswith(pat(a[0]))
    if m == "contains":
        return pat(a[0]) in v
    if m == "strip_prefix":
        p = pat(a[0])
        return SOME(v[len(p):]) if v.startswith(p) else NONE
    if m == "strip_suffix":
        p = pat(a[0])
        return SOME(v[:len(v) - len(p)]) if v.endswith(p) else NONE
    if m == "split_once":
        p = pat(a[0])
        i = v.find(p)
        return SOME((v[:i], v[i + len(p):])) if i >= 0 else NONE
    if m == "find":
        i = v.find(pat(a[0]))
        return SOME(len(v[:i].encode())) if i >= 0 else NONE
    if m == "trim":
        return v.strip()
    if m == "trim_end":
        return v.rstrip()
    if m == "trim_start":
        return v.lstrip()
    if m == "to_lowercase" or m == "to_ascii_lowercase":
        return v.lower()
    if m == "to_uppercase":
        return v.upper()
    if m == "replace":
        return v.replace(pat(a[0]), pat(a[1]))
    if m == "is_char_boundary":
        try:
            v.encode()[:a[0]].decode()
            return True
        except UnicodeDecodeError:
            return False
    if m == "repeat":
        return v * a[0]
    if m == "split":
        return PyIter("vec_into", Seq(tuple(v.split(pat(a[0])))), 0)
    if m == "lines":
        return PyIter("vec_into", Seq(tuple(v.splitlines())), 0)
    if m == "bytes":
        return PyIter("vec_into", Seq(tuple(v.encode())), 0)
    raise Unmodelled(c.key + " (concrete)")


def str_index(ex, base, v, ix):
    if type(v) is BStr:
        a, b = range_bounds(ex, ix, len(v.b))
        h = getattr(ex, "bstr_slice_check", None)
        if h:
            h(ex, v, a, b)
        return sub(base, ("sub", a, b))
    bs = v.encode("utf-8", "surrogateescape")
    a, b = range_bounds(ex, ix, len(bs))
    try:
        bs[:a].decode("utf-8")
        bs[a:b].decode("utf-8")
    except UnicodeDecodeError:
        raise Panic("byte index is not a char boundary")
    return bs[a:b].decode("utf-8")


@model("char::len_utf8")
def m_len_utf8(ex, c, args):
    ch = args[0]
    if isinstance(ch, int):
        return len(chr(ch).encode("utf-8", "surrogatepass"))
    i = ex.choose([z3.ULT(ch, 0x80), z3.And(z3.UGE(ch, 0x80), z3.ULT(ch, 0x800)),
                   z3.And(z3.UGE(ch, 0x800), z3.ULT(ch, 0x10000)), z3.UGE(ch, 0x10000)], "len_utf8")
    return i + 1


@model("char::is_alphanumeric", "char::is_alphabetic", "char::is_numeric", "char::is_whitespace", "char::is_uppercase",
       "char::is_lowercase", "char::is_ascii_digit", "char::is_ascii", "char::is_ascii_alphabetic", "char::is_ascii_alphanumeric",
       "char::is_ascii_uppercase", "char::is_ascii_lowercase", "char::is_ascii_punctuation", "char::is_control", "char::is_ascii_whitespace",
       "char::is_ascii_hexdigit", "char::is_ascii_graphic", "char::is_ascii_control")
def m_char_class(ex, c, args):
    ch = rda(args[0])
    if not isinstance(ch, int):
        h = getattr(ex, "sym_char_class", None)
        if h:
            return h(ex, c.method, ch)
        raise Unmodelled(c.key + " on symbolic char")
    s = chr(ch)
    m = c.method
    return {
        "is_alphanumeric": s.isalnum(), "is_alphabetic": s.isalpha(), "is_numeric": s.isnumeric(),
        "is_whitespace": s.isspace(), "is_uppercase": s.isupper(), "is_lowercase": s.islower(),
        "is_ascii_digit": s in "0123456789", "is_ascii": ch < 128,
        "is_ascii_alphabetic": ch < 128 and s.isalpha(), "is_ascii_alphanumeric": ch < 128 and s.isalnum(),
        "is_ascii_uppercase": "A" <= s <= "Z", "is_ascii_lowercase": "a" <= s <= "z",
        "is_ascii_punctuation": ch < 128 and not s.isalnum() and not s.isspace() and ch > 32 and ch != 127,
        "is_control": ch < 32 or 127 <= ch < 160, "is_ascii_whitespace": s in " \t\n\r\x0c",
        "is_ascii_hexdigit": s in "0123456789abcdefABCDEF",
        "is_ascii_graphic": 0x21 <= ch <= 0x7E, "is_ascii_control": ch < 32 or ch == 127,
    }[m]


@model("char::to_ascii_lowercase", "char::to_ascii_uppercase")
def m_char_case(ex, c, args):
    ch = rda(args[0])
    if isinstance(ch, int):
        return ord(chr(ch).lower() if "lower" in c.method else chr(ch).upper()) if ch < 128 else ch
    raise Unmodelled(c.key + " symbolic")


# ------------------------------------------------------------------------------------------------
# panics, process, env, io

@model("panicking::panic", "panicking::panic_fmt", "panicking::panic_display", "panicking::unreachable_display",
       "panicking::panic_explicit", "panicking::panic_str", "option::unwrap_failed", "option::expect_failed",
       "result::unwrap_failed", "panicking::panic_bounds_check", "panicking::assert_failed", "rt::begin_panic",
       "panicking::panic_nounwind", "panicking::panic_const_add_overflow", "panicking::panic_const_sub_overflow",
       "slice_index_fail", "panicking::panic_cannot_unwind", "rt::panic_fmt", "panicking::begin_panic")
def m_panic(ex, c, args):
    msg = c.key
    for a in args:
        a = rda(a)
        if type(a) is str:
            msg += ": " + a
        elif type(a) is Opaque and a.tag == "fmtargs":
            msg += ": " + str(a.payload[0])
    raise Panic(msg, "/".join(ex.callstack[-2:]))


@model("process::exit", "exit")
def m_exit(ex, c, args):
    raise Halt(args[0])


@model("hint::unreachable_unchecked", "intrinsics::unreachable")
def m_unreachable(ex, c, args):
    raise ExecError("unreachable_unchecked reached")


@model("hint::black_box", "convert::identity", "hint::must_use")
def m_identity(ex, c, args):
    return args[0]


@model("RangeInclusive::new")
def m_range_incl_new(ex, c, args):
    return Adt("RangeInclusive", 0, (args[0], args[1], False))


@model("Not::not")
def m_not_trait(ex, c, args):
    v = rda(args[0])
    return ex.not_(v)
