"""Value domain of the MIR symbolic executor.  All values are immutable (persistent); the only
mutable thing is a Cell (a local variable slot or a heap slot)."""
import z3


class Cell:
    __slots__ = ("v", "name")

    def __init__(self, v=None, name=None):
        self.v = v
        self.name = name

    def __repr__(self):
        return "Cell(%r)" % (self.v,)


class Ref:
    """reference / raw pointer: a cell plus a projection path (ints, ('sub', a, b))"""
    __slots__ = ("cell", "path")

    def __init__(self, cell, path=()):
        self.cell = cell
        self.path = path

    def __repr__(self):
        return "Ref(%s%s)" % (self.cell.name or "cell", "".join("." + str(p) for p in self.path))


class Adt:
    __slots__ = ("ty", "var", "fields")

    def __init__(self, ty, var, fields=()):
        self.ty = ty
        self.var = var
        self.fields = fields

    def __repr__(self):
        return "%s#%s%r" % (self.ty, self.var, tuple(self.fields))


class Seq:
    """Vec / array / slice contents (concrete length)"""
    __slots__ = ("items",)

    def __init__(self, items=()):
        self.items = tuple(items)

    def __repr__(self):
        return "Seq%r" % (self.items,)


class SymStr:
    """token-layer string: an interned id (z3 Int term)"""
    __slots__ = ("term",)

    def __init__(self, term):
        self.term = term

    def __repr__(self):
        return "SymStr(%s)" % self.term


class BStr:
    """text-layer string / byte buffer: concrete-length sequence of bytes (int or BitVec 8)"""
    __slots__ = ("b",)

    def __init__(self, b=()):
        self.b = tuple(b)

    def __repr__(self):
        return "BStr%r" % (self.b,)


class Closure:
    __slots__ = ("name", "caps")

    def __init__(self, name, caps=()):
        self.name = name
        self.caps = caps

    def __repr__(self):
        return "Closure(%s,%r)" % (self.name, self.caps)


class FnItem:
    __slots__ = ("path",)

    def __init__(self, path):
        self.path = path

    def __repr__(self):
        return "FnItem(%s)" % self.path


class Opaque:
    """result of a cut (e.g. a rendered Doc): tag + payload, compared structurally"""
    __slots__ = ("tag", "payload")

    def __init__(self, tag, payload=()):
        self.tag = tag
        self.payload = payload

    def __repr__(self):
        return "Opaque(%s,%r)" % (self.tag, self.payload)


class BoxU:
    """Box<MaybeUninit<T>> produced by Box::new_uninit (the `vec!` lowering)"""
    __slots__ = ("cell",)

    def __init__(self, cell):
        self.cell = cell


class PyIter:
    """std iterator adaptors; kind + immutable state tuple"""
    __slots__ = ("kind", "st")

    def __init__(self, kind, *st):
        self.kind = kind
        self.st = st

    def __repr__(self):
        return "It:%s%r" % (self.kind, self.st)


UNIT = ()


def is_sym(v):
    return isinstance(v, z3.ExprRef)


# ------------------------------------------------------------------------------------------------
# path access on persistent values

def child(v, p):
    t = type(v)
    if type(p) is int:
        if t is Adt:
            return v.fields[p]
        if t is tuple:
            return v[p]
        if t is Seq:
            return v.items[p]
        if t is Closure:
            return v.caps[p]
        if t is BStr:
            return v.b[p]
        raise TypeError("cannot project .%s out of %r" % (p, v))
    if p[0] == "sub":
        if t is Seq:
            return Seq(v.items[p[1]:p[2]])
        if t is BStr:
            return BStr(v.b[p[1]:p[2]])
        if t is str:
            return v.encode("utf-8", "surrogateescape")[p[1]:p[2]].decode("utf-8", "surrogateescape")
        raise TypeError("cannot subslice %r" % (v,))
    raise TypeError("bad path step %r" % (p,))


def with_child(v, p, new):
    t = type(v)
    if type(p) is int:
        if t is Adt:
            f = v.fields
            return Adt(v.ty, v.var, f[:p] + (new,) + f[p + 1:])
        if t is tuple:
            return v[:p] + (new,) + v[p + 1:]
        if t is Seq:
            f = v.items
            return Seq(f[:p] + (new,) + f[p + 1:])
        if t is Closure:
            f = v.caps
            return Closure(v.name, f[:p] + (new,) + f[p + 1:])
        if t is BStr:
            f = v.b
            return BStr(f[:p] + (new,) + f[p + 1:])
        raise TypeError("cannot update .%s of %r" % (p, v))
    if p[0] == "sub":
        if t is Seq:
            return Seq(v.items[:p[1]] + tuple(new.items) + v.items[p[2]:])
        if t is BStr:
            return BStr(v.b[:p[1]] + tuple(new.b) + v.b[p[2]:])
    raise TypeError("bad path step %r" % (p,))


def getp(v, path):
    for p in path:
        v = child(v, p)
    return v


def setp(v, path, new):
    if not path:
        return new
    p = path[0]
    if len(path) == 1:
        return with_child(v, p, new)
    return with_child(v, p, setp(child(v, p), path[1:], new))
