#!/usr/bin/env python3
"""writes /verif/MANIFEST.json from the table below (kept next to the code so it stays in sync)"""
import json
import os

VERIF = os.path.dirname(os.path.dirname(os.path.abspath(__file__)))

MIRSYM = "symbolic execution of rustc MIR (mirsym) + SMT (Z3)"

CHECKS = {
    "C01": dict(text="bounded symbolic execution of OptionParser::run_subparser (MIR regenerated from /repo) on symbolic item vectors of 21 grammars, differential against a documentation-level reference semantics; every path is closed by Z3, one concrete member of every path is replayed natively",
                note="bounds: <=3 argv words quick / <=4 thorough (each word is 1-2 items), 12 grammars (all typed values u32); std calls replaced by listed models; rendering cut at Message::render/render_help; tokenizer image assumed (wf_tokens)",
                tech=MIRSYM + ", differential oracle", ref="DESIGN.md 4/C01"),
    "C02": dict(text="text layer: arg::split_os_argument executed from MIR on every byte string up to the bound (all 256 byte values symbolic) and State::construct + disambiguate_short on words over a byte alphabet, both against a reference tokenization written from the documentation; token layer: relational spelling equivalence (--n v / --n=v / -n v / -n=v / -nv) and differential checks for `adjacent` arguments and aliases",
                note="bounds: byte strings <=4 quick / <=5 thorough; construct: 1-3 words, total length <=5/6, short-name table with ASCII names and one two-byte name; counterexamples confirmed through the public API with a probe grammar (unprobeable names => inconclusive); Windows u16 path not compiled; one defect found and fixed (863ecb8)",
                tech=MIRSYM + " over symbolic bytes, differential + relational", ref="DESIGN.md 4/C02"),
    "C03": dict(text="relational: run_subparser executed from MIR on a symbolic argv and on its neighbour-transposed variant in one path; Z3 shows equal class and value for every allowed transposition",
                note="bounds: 2..3 argv words quick / ..4 thorough, 10 grammars; vectors with a dangling argument name are skipped (no decomposition into whole occurrences)",
                tech=MIRSYM + ", relational (2-execution) query", ref="DESIGN.md 4/C03"),
    "C04": dict(text="reachability of panic / exit / bound-exhaustion paths: run_subparser on 19 grammars with the error path executed from MIR (Message::render, summarize_missing, only_once, conflicts, Doc builders, core::fmt interpreted), State::check_complete for revisions 0/1/7/8/9 with and without a name, repetition wrappers with a nondeterministic inner parser (termination), adjacency index kernels from arbitrary states, and a two-run purity check",
                note="bounds: <=2 argv words quick / <=3 thorough for rendering; the typo suggester is cut in the render jobs and its distance kernel executed separately on symbolic UTF-8 (<=4 bytes quick / <=6 thorough, ASCII and non-ASCII declared names); adjacent grammars get one more word (reduced forms); a path that exhausts the step budget is replayed natively with a 10 s timeout and reported as non-termination if the real code hangs; help rendering, candidate generation and shell renderers are cut; termination = no path exhausts the 1.5M-statement budget; one defect found and fixed (completion rev 9 without a name)",
                tech=MIRSYM + ", panic-path reachability", ref="DESIGN.md 4/C04"),
    "C05": dict(text="ledger lemmas of State::{remove,set_scope,take_*} from an arbitrary symbolic state, wrapper contracts with a nondeterministic inner parser, and Ok => all-items-Parsed / value provenance / declared-names on the whole corpus (groups, alternatives, adjacent groups, subcommands)",
                note="lemma counterexamples are internal states (reported with the solver model, not replayable through the public API); corpus bounds <=3 argv words quick / <=4 thorough",
                tech=MIRSYM + ", inductive-step lemmas + corpus obligations", ref="DESIGN.md 4/C05"),
    "C06": dict(text="differential against the reference semantics on grammars with guards / parse steps / groups under optional, many, some, last, fallback; plus the message clause: a sentence with an invalid value fails with ParseFailed/GuardFailed pointing at the offending item (observed at the render cut, confirmed on native text)",
                note="bounds <=3 items quick / <=4 thorough; guards are `value >= 10` executed from the harness MIR; conversion is an uninterpreted validity predicate",
                tech=MIRSYM + ", differential oracle", ref="DESIGN.md 4/C06"),
    "C07": dict(text="differential against a documentation-level semantics of choices (bare / optional / repeated) over a flag, an argument and a two-argument group (declared last and declared first), plus a repeated choice of three flags: exactly-one alternative, conflicts fail, repeated values in command line order (leftmost item of each instance)",
                note="bounds: <=3 argv words quick / <=4 thorough (up to twice as many items), grammars a1-a4",
                tech=MIRSYM + ", differential oracle", ref="DESIGN.md 4/C07"),
    "C08": dict(text="differential against the reference semantics on subcommand trees (depth 2, aliases, optional command, per-level items and positionals)",
                note="bounds <=3 argv words quick / <=4 thorough; enclosing-level options right of the command name are outside the quantifier",
                tech=MIRSYM + ", differential oracle", ref="DESIGN.md 4/C08"),
    "C09": dict(text="differential against the reference semantics on positional grammars of every strictness with `--` at every position and arbitrary ids on both sides",
                note="bounds <=4 argv words quick / <=5 thorough (token layer) plus State::construct executed from MIR on 2-3 words over {-,=,a,b} (first `--` pre-consumed, later items never re-tokenised)",
                tech=MIRSYM + ", differential oracle", ref="DESIGN.md 4/C09"),
    "C10": dict(text="one Short/Long item is constrained to be the help (version) flag, everything else symbolic; Z3 shows the class is Stdout and the (cut) help renderer receives the path/Info of the innermost entered subcommand",
                note="bounds 1..3 argv words quick / ..4 thorough, 24 grammars (incl. commands under optional().catch(), repeated and adjacent commands with their own version, a choice below depth 1, duplicate command names); for adjacent commands the expected level follows the block rule (the flag belongs to the command iff it lies in the run of items the command accepts); help together with version inside an adjacent command is assumed away; the ambiguity exception of run_inner is outside the token layer; one known finding (see known_findings.json); three defects found and fixed (188e172, 6f5c85c, 1e94030)",
                tech=MIRSYM + ", outcome-class obligations", ref="DESIGN.md 4/C10"),
    "C11": dict(text="in-process clause only: OptionParser::run executed from MIR with current_args / process::exit / print macros as recording models: the program body is reached iff the run yields a value (and nothing is printed), otherwise exactly one print to stdout with status 0 (help/version/completion) or to stderr with status 1 (failure); with fallback_to_usage (grammar fu) stdout is reached only by the empty line or a help request; ParseFailure::exit_code on all variants; Args::current_args executed from MIR on a symbolic argv[0] path: the application name is its file name. One concrete argv per path is additionally pushed through a REAL process running run() (supporting evidence)",
                note="the clause 'a real process behaves like run_inner for every OS argv (non-UTF-8 through execve)' is outside symbolic execution and is NOT claimed beyond the per-path real-process validation; message non-emptiness is not decided (rendering cut); print_message is related to run_inner's prediction by a kernel (same `full` flag and width reach render_console as in unwrap_stdout / unwrap_stderr, stream per class, completion text verbatim); bounds <=3 argv words quick / <=4 thorough, 4 grammars",
                tech=MIRSYM + ", effect-recording models", ref="DESIGN.md 4/C11"),
    "C12": dict(text="the Meta tree is the symbolic input: bounded trees whose node kinds (And/Or/Optional/Required/Many/Adjacent/Subsection/Suffix/CustomUsage/Skip) and leaf kinds (flag/argument/positional/command, with or without help) are chosen through the solver; append_meta, grouping, de-duplication, write_help_item*, the Doc builders and render_console are executed from MIR and the rendered text is checked: every visible item listed exactly once with name, metavariable and help, nothing hidden / no help-less positional, CustomUsage changes nothing; per primitive the shown name is the first declared one and is accepted; descr/usage/header/items/footer order on real grammars",
                note="bounds: depth <=2, <=2 inner nodes quick (3 thorough), unique leaf names plus `dupor` nodes (two items with the same name and help in two branches: flag vs argument, two metavariables, identical twice), Strict wrappers around positionals; usage-line normalisation not asserted; BTreeSet and Debug keys modelled injectively",
                tech=MIRSYM + ", solver-chosen definitions + text oracle", ref="DESIGN.md 4/C12"),
    "C13": dict(text="Doc::render_console (with the Splitter) executed from MIR on the block structures bpaf emits (incl. the term references of error messages), text of symbolic bytes, symbolic width: inserted bytes are only spaces/newlines and the non-whitespace user bytes appear exactly once and in order (exact provenance); short form is a prefix / the whole first paragraph; with a concrete multi-word filler and max_width symbolic in 40..=48 every multi-word line is at most max_width+2 columns",
                note="bounds: 8 templates, symbolic text <=4 bytes quick / <=5 thorough over {space,newline,a,b,é}, widths 1..=16 and 100 for content, 40..=48 for the width clause (concrete fillers: short words, and one 52-column unbreakable word among short ones); widths 49..=300, longer texts and colours are outside",
                tech=MIRSYM + " over symbolic bytes, provenance obligations", ref="DESIGN.md 4/C13"),
    "C14": dict(text="run_subparser executed from the full-feature MIR in completion mode on 0-2 symbolic words followed by a concrete word being typed; Complete::complete, arg_matches/cmd_matches, Doc::to_completion and render_test run on real text: the outcome is always Completion; every candidate with a replacement is a visible name (preferred spelling) of the entered or an enclosing level that matches the typed word, a subcommand of the active level extending it, or the `--` hint - never a hidden name or one of a command not entered; after clean prefixes every visible not-yet-given name extending `--prefix` is offered. One concrete argv per path is validated against the native completion text",
                note="the typed word ranges over 21 fixed words plus words derived from each grammar (prefixes of command names / aliases / long names, also followed by a foreign letter; exact shorts), the prefix is symbolic (<=2 words quick / <=3 thorough); 9 grammars incl. a flag-or-positional choice at top level and inside a command, an argument with a user completer, an adjacent option-struct with a completer; no or non-UTF-8 last words in the corpus; one known finding (`name=` for an unavailable item)",
                tech=MIRSYM + ", token layer prefix + concrete typed word", ref="DESIGN.md 4/C14"),
    "C15": dict(text="the single-quote wrapper `Shell` executed from MIR (core::fmt interpreted) on every valid UTF-8 string up to the bound: the output lexes under POSIX rules as exactly one word with the input as value; render_zsh/bash/fish/simple executed from MIR on candidate and completer lists whose user-originated strings are tracked atoms: no atom reaches a zsh/bash script unquoted, every line is a complete directive, every candidate / requested completer appears exactly once; fish / elvish line protocols: every candidate exactly once and the whole help text (which may hold line breaks) is never written, only its first line",
                note="bounds: strings <=6 bytes quick / <=8 thorough; 0-2 candidates, 0-1 completers plus five pairs incl. same-kind pairs with different masks (thorough: all pairs); reference lexers in props/C15.py; sourcing in a real shell not attempted; four defects found and fixed (7d9d288, 7f18a65, 640d5de, a82f969)",
                tech=MIRSYM + " over symbolic bytes / tracked atoms", ref="DESIGN.md 4/C15"),
    "C16": dict(text="kernels executed from MIR over symbolic bytes: roff escape() on fragment sequences (exact provenance: inserted bytes concrete, user bytes symbolic) - no user byte starts a line as a control character, every user backslash is escaped; the Roff builder API (control / plaintext / text ...) + render on symbolic user strings incl. the double quote (the escaping mode is chosen by the executed code); whole manpage / html documents of a grammar whose free texts are symbolic bytes (udoc jobs, compared with the native build byte for byte); html change_style for all 64 style pairs; Doc::render_html (with the Splitter) on 7 block templates - tags balanced, no user `<`/`>` reaches the output; extract_sections visits every command level exactly once",
                note="bounds: <=3 fragments x <=2 user bytes quick (4 x 3 thorough); html text <=4 bytes (5 thorough); section traversal (extract_sections) on 10 command trees incl. duplicate command names and a group_help group; whole documents: markdown / html / manpage of 14 corpus grammars rendered from MIR, byte-equal to the native build, one section per command level naming its visible items and no hidden one; documents of solver-chosen definitions (C12 generator with nested command levels, depth <=2); markdown cosmetics are not judged; one defect found and fixed (roff control arguments)",
                tech=MIRSYM + " over symbolic bytes, provenance obligations", ref="DESIGN.md 4/C16"),
    "C17": dict(text="the derive macro's expansion (part of the harness crate's MIR) and the documented hand written combinator equivalent are both executed from MIR: their Meta trees and Info are structurally equal (what help is rendered from), and on every symbolic argv within the bound run_subparser of both gives equal class, value and failure kind (one joint path, Z3)",
                note="fixed corpus of 7 derive/manual pairs (incl. unusual identifiers: consecutive / leading underscores, digits, uppercase single letters, acronym variant names) covering the derive rules of the property (definitions cannot be symbolic through a proc macro); bounds <=3 argv words quick / <=4 thorough; rendering cut",
                tech=MIRSYM + ", relational query between two builders", ref="DESIGN.md 4/C17"),
    "C18": dict(text="std::env::var_os replaced by symbolic functions; differential against the reference semantics (line, then variable, then default/failure) for every argv shape and every environment state; reading an undeclared variable is a violation; std::env::var is modelled too (a non-UTF-8 value is a kind of invalid value, replayed with byte 0xff)",
                note="bounds <=2 argv words quick / <=3 thorough on the env-backed grammar; one known finding (see known_findings.json)",
                tech=MIRSYM + ", differential oracle with symbolic environment", ref="DESIGN.md 4/C18"),
    "C19": dict(text="adjacent groups (multi-value option, option-struct before/after a switch, optional and repeated) and adjacent subcommand chains: Ok => every group value comes from one contiguous block starting at a group-start item, in command line order (value provenance); clean lines => Ok with exactly the block values; a group-start item without a complete block => stderr",
                note="bounds: <=3 argv words quick / <=4 thorough on 7 grammars (incl. nested adjacent groups); lemma: ParseAdjacent::eval from every pre-state of <=4 items quick / <=5 thorough (any subset consumed, any scope) around a solver-chosen deterministic inner parser - Ok => consumed items are one contiguous run inside the scope, scope restored; lines the documentation does not fix (positional before a block) only carry the soundness obligation; one defect found and fixed (de99059)",
                tech=MIRSYM + ", provenance + block-decomposition oracle", ref="DESIGN.md 4/C19"),
    "C20": dict(text="relational across two MIR dumps ({} and {autocomplete,docgen,batteries}): the second build is explored under each path condition of the first (symbolic argv and environment; for grammar gd with Doc::to_completion executed from MIR); Z3 shows equal class, value, ledger and Message",
                note="bounds <=2 argv words quick / <=3 thorough, 19 grammars; run_inner prologue (short-name table, State::construct on argv bytes, ambiguity report) compared on symbolic bytes over 5-letter alphabets, <=2 words / 6 bytes quick (3 / 8 thorough); help *text*: Doc::render_console (Splitter included) compared across the builds on a help item whose body is a structural prefix + <=3 (4) symbolic bytes; error text rendering cut; colour features and derive not executed; one defect found and fixed (86df1ed); one known finding (fenced code blocks in help text are recognised with docgen only)",
                tech=MIRSYM + ", relational query across two builds", ref="DESIGN.md 4/C20"),
}

NOT_APPLICABLE = {
}


def main():
    checks = []
    for pid in sorted(CHECKS):
        c = CHECKS[pid]
        checks.append({
            "property_id": pid,
            "quick_cmd": "./check %s --tier quick" % pid,
            "thorough_cmd": "./check %s --tier thorough" % pid,
            "evidence_file": "/verif/evidence/%s.json" % pid,
            "replay_cmd_template": "./check %s --replay {path}" % pid,
            "engine": c.get("engine", "mirsym"),
            "level_claimed": {"category": c.get("level", "model_checking"), "text": c["text"], "design_ref": c["ref"]},
            "level_note": c["note"],
            "technique": c["tech"],
        })
    props = [json.loads(l)["id"] for l in open(os.path.join(VERIF, "properties.jsonl"))]
    na = []
    for pid in props:
        if pid not in CHECKS:
            na.append({"property_id": pid, "reason": NOT_APPLICABLE.get(pid, "check not built yet in this round; see DESIGN.md section 4 for the plan")})
    m = {
        "version": 1,
        "setup_cmd": "python3-vt -c \"import z3; print('z3', z3.get_version_string())\" && cargo +nightly --version && cargo kani --version",
        "hooks": {
            "guard": "pacak_bpaf_verif",
            "enable": "no hooks: the engines work on a scratch copy of /repo's working tree (MIR dump, rustdoc JSON, native replay binary)",
            "baseline_off_cmd": "cd /repo && cargo test --workspace --no-fail-fast --offline",
            "source_commits": [],
            "add_only": True,
        },
        "engines": [
            {"name": "mirsym", "path": "/verif/mirsym", "serves_properties": sorted(k for k, v in CHECKS.items() if v.get("engine", "mirsym") == "mirsym"),
             "kind_free_text": "path-forking symbolic executor for rustc MIR (dump regenerated from /repo on every run), Z3 decides every branch and every oracle obligation; counterexamples are concretised and replayed against a native binary built from the same tree"},
        ],
        "checks": checks,
        "notes": "every command rebuilds a scratch copy of /repo under ${VERIF_SCRATCH:-/var/tmp} and removes it on exit; exit 2 = inconclusive (never reported as a pass)",
        "not_applicable": na,
    }
    with open(os.path.join(VERIF, "MANIFEST.json"), "w") as f:
        json.dump(m, f, indent=1)
    print("MANIFEST.json: %d checks, %d not applicable" % (len(checks), len(na)))


if __name__ == "__main__":
    main()
