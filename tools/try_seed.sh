#!/bin/sh
# usage: tools/try_seed.sh <patch.diff> <tier> <Cxx> [<Cxx> ...]
# applies a seeded change to /repo, runs the named checks, and always reverts /repo afterwards.
patch="$1"; tier="$2"; shift 2
cd /verif || exit 3
if [ -n "$(git -C /repo status --short)" ]; then echo "/repo not clean"; exit 3; fi
trap 'git -C /repo checkout -- . ; echo "[reverted /repo]"' EXIT INT TERM
git -C /repo apply "$patch" || exit 3
for c in "$@"; do
  ./check "$c" --tier "$tier" > /tmp/seedrun-$c.log 2>&1
  rc=$?
  echo "$c rc=$rc violations=$(grep -c '^VIOLATION' /tmp/seedrun-$c.log) known=$(grep -c '^KNOWN-FINDING' /tmp/seedrun-$c.log)"
  grep -A1 '^VIOLATION' /tmp/seedrun-$c.log | grep -v '^VIOLATION\|^--' | cut -c1-260 | head -4
done
