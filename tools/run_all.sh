#!/bin/sh
# run every registered quick (or thorough) check; prints one line per check
cd "$(dirname "$0")/.." || exit 2
TIER="${1:-quick}"
for p in $(python3 -c "import json; print(' '.join(c['property_id'] for c in json.load(open('MANIFEST.json'))['checks']))"); do
  s=$(date +%s)
  ./check "$p" --tier "$TIER" > "/tmp/verif-$p.log" 2>&1
  rc=$?
  e=$(date +%s)
  echo "$p rc=$rc $((e-s))s $(grep -c '^VIOLATION' /tmp/verif-$p.log) violations $(grep -c '^KNOWN-FINDING' /tmp/verif-$p.log) known $(grep -c '^INCONCLUSIVE' /tmp/verif-$p.log) inconclusive"
done
