#!/bin/sh
# run every seeded demo on the current (repaired, unpatched) /repo tree: all must pass
W=/tmp/cfdemo
git -C /repo worktree add -q --detach $W HEAD || exit 1
cd $W
for d in /verif/seeded/*/; do id=$(basename $d); n=$(echo $id | tr '-' '_'); cp $d/demo.rs tests/seed_$n.rs; done
export CARGO_NET_OFFLINE=true CARGO_TARGET_DIR=$W/target
cargo build -p bpaf --offline --example basic >/dev/null 2>&1
for d in /verif/seeded/*/; do id=$(basename $d); n=$(echo $id | tr '-' '_');
  r=$(cargo test --offline --features "autocomplete docgen derive" --test seed_$n 2>&1 | grep "^test result" | head -1)
  echo "$id: $r"
done
cd /; git -C /repo worktree remove --force $W
