#!/bin/sh
# usage: g2.sh <patch> <grammar|kind|-> <Cxx>...   dev helper: patched COPY of /repo (never touches /repo)
patch="$1"; gr="$2"; shift 2
R=${VERIF_COPY_DIR:-/var/tmp/repo2}
rm -rf $R; mkdir -p $R; rsync -a --exclude target --exclude .git /repo/ $R/
(cd $R && patch -p1 -s < "$patch") || exit 3
cd /verif; export VERIF_EVIDENCE_DIR=/var/tmp/ev-dev
for c in "$@"; do
  if [ "$gr" = "-" ]; then VERIF_REPO=$R ./check $c --tier quick 2>&1 | tail -4 | cut -c1-500
  else VERIF_REPO=$R ./check $c --tier quick --grammar $gr 2>&1 | tail -4 | cut -c1-500; fi
done
rm -rf $R
