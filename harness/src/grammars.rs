//! The grammar corpus.  Conventions (mirsym relies on them):
//!  * at most one `construct!` per function (its closure is identified by the enclosing fn)
//!  * every typed value is `u32`
//!  * names are distinct across the levels of one grammar
use bpaf::*;
use std::ffi::OsString;

// ---------------------------------------------------------------------------------------------
// flat grammars of named items (C01, C03, C05, C06, C10, C20)

/// one switch, required / optional / repeated argument
pub fn g1() -> OptionParser<(bool, u32, Option<u32>, Vec<u32>)> {
    let a = short('a').long("alpha").switch();
    let b = short('b').long("beta").argument::<u32>("B");
    let c = short('c').long("gamma").argument::<u32>("C").optional();
    let d = short('d').long("delta").argument::<u32>("D").many();
    construct!(a, b, c, d).to_options()
}

/// required flag, counted flag, some / last / defaulted argument
pub fn g2() -> OptionParser<((), usize, Vec<u32>, u32, u32)> {
    let r = short('r').long("req").req_flag(());
    let v = short('v').long("verbose").req_flag(()).count();
    let s = short('s').long("some").argument::<u32>("S").some("want at least one S");
    let l = short('l').long("last").argument::<u32>("L").last();
    let f = short('f').long("fall").argument::<u32>("F").fallback(42);
    construct!(r, v, s, l, f).to_options()
}

/// aliases: several short and long names per item
pub fn g3() -> OptionParser<(bool, Option<u32>)> {
    let a = short('a').short('A').long("alpha").long("al").switch();
    let b = short('b').long("beta").long("be").short('B').argument::<u32>("B").optional();
    construct!(a, b).to_options()
}

// ---------------------------------------------------------------------------------------------
// named items + positionals

/// switch, optional argument, one required and one optional positional
pub fn p1() -> OptionParser<(bool, Option<u32>, u32, Option<u32>)> {
    let a = short('a').long("alpha").switch();
    let b = short('b').long("beta").argument::<u32>("B").optional();
    let x = positional::<u32>("X");
    let y = positional::<u32>("Y").optional();
    construct!(a, b, x, y).to_options()
}

/// repeated argument and a repeated positional tail
pub fn p2() -> OptionParser<(Vec<u32>, Vec<u32>)> {
    let d = short('d').long("delta").argument::<u32>("D").many();
    let xs = positional::<u32>("XS").many();
    construct!(d, xs).to_options()
}

/// strictness: non_strict, then strict many (C09)
pub fn p3() -> OptionParser<(bool, Option<u32>, Vec<u32>)> {
    let a = short('a').long("alpha").switch();
    let x = positional::<u32>("X").non_strict().optional();
    let ys = positional::<u32>("YS").strict().many();
    construct!(a, x, ys).to_options()
}

/// one strict required positional next to an argument
pub fn p4() -> OptionParser<(Option<u32>, u32)> {
    let b = short('b').long("beta").argument::<u32>("B").optional();
    let x = positional::<u32>("X").strict();
    construct!(b, x).to_options()
}

/// strict optional positional followed by an unrestricted one, and a strict positional under `fallback`
pub fn p6() -> OptionParser<(Option<u32>, u32)> {
    let a = positional::<u32>("A").strict().optional();
    let b = positional::<u32>("B");
    construct!(a, b).to_options()
}

/// unrestricted positionals only
pub fn p5() -> OptionParser<(u32, Vec<u32>)> {
    let x = positional::<u32>("X");
    let ys = positional::<u32>("YS").many();
    construct!(x, ys).to_options()
}

// ---------------------------------------------------------------------------------------------
// subcommands

#[derive(Debug, Clone, PartialEq)]
pub enum Cmd1 {
    Add(bool, u32),
    Rm(Option<u32>, Vec<u32>),
}

fn c1_add() -> OptionParser<Cmd1> {
    let n = short('n').long("new").switch();
    let x = positional::<u32>("X");
    construct!(Cmd1::Add(n, x)).to_options().descr("add things")
}

fn c1_rm() -> OptionParser<Cmd1> {
    let f = short('f').long("force").argument::<u32>("F").optional();
    let ys = positional::<u32>("YS").many();
    construct!(Cmd1::Rm(f, ys)).to_options().descr("remove things")
}

fn c1_cmds() -> impl Parser<Cmd1> {
    let add = c1_add().command("add").short('a');
    let rm = c1_rm().command("rm").long("remove");
    construct!([add, rm])
}

/// top level switch and argument, then a choice of two subcommands
pub fn c1() -> OptionParser<(bool, Option<u32>, Cmd1)> {
    let v = short('v').long("verbose").switch();
    let t = short('t').long("top").argument::<u32>("T").optional();
    let cmd = c1_cmds();
    construct!(v, t, cmd).to_options()
}

#[derive(Debug, Clone, PartialEq)]
pub enum Inner2 {
    Leaf(bool, Option<u32>),
}

fn c2_leaf() -> OptionParser<Inner2> {
    let z = short('z').long("zed").switch();
    let w = positional::<u32>("W").optional();
    construct!(Inner2::Leaf(z, w)).to_options()
}

fn c2_mid() -> OptionParser<(bool, Inner2)> {
    let m = short('m').long("mid").switch();
    let leaf = c2_leaf().command("leaf");
    construct!(m, leaf).to_options()
}

/// depth 2: top -> mid -> leaf
pub fn c2() -> OptionParser<(bool, (bool, Inner2))> {
    let v = short('v').long("verbose").switch();
    let mid = c2_mid().command("mid");
    construct!(v, mid).to_options()
}

/// optional subcommand next to a switch
pub fn c3() -> OptionParser<(bool, Option<Cmd1>)> {
    let v = short('v').long("verbose").switch();
    let cmd = c1_add().command("add").optional();
    construct!(v, cmd).to_options()
}

// ---------------------------------------------------------------------------------------------
// conversion / validation (C06)

fn big(x: &u32) -> bool {
    *x >= 10
}

/// guard on a required argument, guard under optional, guard under many+fallback
pub fn v1() -> OptionParser<(u32, Option<u32>, Vec<u32>)> {
    let a = short('a').long("alpha").argument::<u32>("A").guard(big, "must be big");
    let b = short('b').long("beta").argument::<u32>("B").guard(big, "must be big").optional();
    let c = short('c').long("gamma").argument::<u32>("C").guard(big, "must be big").many();
    construct!(a, b, c).to_options()
}

fn half(x: u32) -> Result<u32, &'static str> {
    if x >= 10 {
        Ok(x)
    } else {
        Err("too small")
    }
}

/// `parse` step under fallback / last / some
pub fn v2() -> OptionParser<(u32, u32, Vec<u32>)> {
    let a = short('a').long("alpha").argument::<u32>("A").parse(half).fallback(7);
    let b = short('b').long("beta").argument::<u32>("B").parse(half).last();
    let c = short('c').long("gamma").argument::<u32>("C").parse(half).some("need C");
    construct!(a, b, c).to_options()
}

/// optional positional with a guard, fallback positional
pub fn v3() -> OptionParser<(Option<u32>, u32)> {
    let x = positional::<u32>("X").guard(big, "must be big").optional();
    let y = positional::<u32>("Y").fallback(3);
    construct!(x, y).to_options()
}

// ---------------------------------------------------------------------------------------------
// groups (C05, C06): optional / repeated sequential groups

fn grp_ab() -> impl Parser<(u32, u32)> {
    let a = short('a').long("alpha").argument::<u32>("A");
    let b = short('b').long("beta").argument::<u32>("B");
    construct!(a, b)
}

/// optional group of two required arguments plus a switch
pub fn o1() -> OptionParser<(Option<(u32, u32)>, bool)> {
    let g = grp_ab().optional();
    let s = short('s').long("sw").switch();
    construct!(g, s).to_options()
}

/// repeated group
pub fn o2() -> OptionParser<(Vec<(u32, u32)>, bool)> {
    let g = grp_ab().many();
    let s = short('s').long("sw").switch();
    construct!(g, s).to_options()
}

// ---------------------------------------------------------------------------------------------
// alternatives (C07)

#[derive(Debug, Clone, PartialEq)]
pub enum Alt {
    A,
    B(u32),
    C(u32, u32),
}

fn alt_c() -> impl Parser<Alt> {
    let x = short('x').long("ex").argument::<u32>("X");
    let y = short('y').long("why").argument::<u32>("Y");
    construct!(Alt::C(x, y))
}

fn alt3() -> impl Parser<Alt> {
    let a = short('a').long("alpha").req_flag(Alt::A);
    let b = short('b').long("beta").argument::<u32>("B").map(Alt::B);
    let c = alt_c();
    construct!([a, b, c])
}

/// bare choice between a flag, an argument and a two-argument group
pub fn a1() -> OptionParser<(Alt, bool)> {
    let alt = alt3();
    let s = short('s').long("sw").switch();
    construct!(alt, s).to_options()
}

/// optional choice
pub fn a2() -> OptionParser<(Option<Alt>, bool)> {
    let alt = alt3().optional();
    let s = short('s').long("sw").switch();
    construct!(alt, s).to_options()
}

/// repeated choice: values follow command line order
pub fn a3() -> OptionParser<(Vec<Alt>, bool)> {
    let alt = alt3().many();
    let s = short('s').long("sw").switch();
    construct!(alt, s).to_options()
}

// ---------------------------------------------------------------------------------------------
// environment variables (C18)

/// env-backed switch, required / optional / many argument, fallback argument
pub fn e1() -> OptionParser<(bool, u32, Option<u32>, Vec<u32>, u32)> {
    let a = short('a').long("alpha").env("VERIF_A").switch();
    let b = short('b').long("beta").env("VERIF_B").argument::<u32>("B");
    let c = short('c').long("gamma").env("VERIF_C").argument::<u32>("C").optional();
    let d = short('d').long("delta").env("VERIF_D").argument::<u32>("D").many();
    let f = short('f').long("fall").env("VERIF_F").argument::<u32>("F").fallback(42);
    construct!(a, b, c, d, f).to_options()
}

// ---------------------------------------------------------------------------------------------
// adjacency (C02 adjacent arguments, C19 adjacent groups)

/// `adjacent` argument: only `-b=V`, `-bV`, `--beta=V`
pub fn j1() -> OptionParser<(bool, Option<u32>)> {
    let a = short('a').long("alpha").switch();
    let b = short('b').long("beta").argument::<u32>("B").adjacent().optional();
    construct!(a, b).to_options()
}

fn point() -> impl Parser<(u32, u32)> {
    let p = short('p').long("point").req_flag(());
    let x = positional::<u32>("X");
    let y = positional::<u32>("Y");
    construct!(p, x, y).adjacent().map(|t| (t.1, t.2))
}

/// multi-value option `--point X Y`, repeated, next to a switch and a trailing positional
pub fn k1() -> OptionParser<(Vec<(u32, u32)>, bool, Option<u32>)> {
    let pts = point().many();
    let s = short('s').long("sw").switch();
    let z = positional::<u32>("Z").optional();
    construct!(pts, s, z).to_options()
}

fn rect() -> impl Parser<(u32, u32)> {
    let r = short('r').long("rect").req_flag(());
    let w = short('w').long("width").argument::<u32>("W");
    let h = short('h').long("height").argument::<u32>("H");
    construct!(r, w, h).adjacent().map(|t| (t.1, t.2))
}

/// option-struct `--rect --width W --height H`, optional, next to a switch
pub fn k2() -> OptionParser<(Option<(u32, u32)>, bool)> {
    let r = rect().optional();
    let s = short('s').long("sw").switch();
    construct!(r, s).to_options().help_parser(long("help").help("help"))
}

// ---------------------------------------------------------------------------------------------
// help / version configuration (C10)

/// version configured, custom descr
pub fn h1() -> OptionParser<(bool, u32)> {
    let a = short('a').long("alpha").switch();
    let b = short('b').long("beta").argument::<u32>("B");
    construct!(a, b).to_options().version("1.2.3").descr("h1 test")
}

/// subcommand with its own version, fallback_to_usage
pub fn h2() -> OptionParser<(bool, Cmd1)> {
    let v = short('v').long("verbose").switch();
    let cmd = c1_add().version("9.9").command("add");
    construct!(v, cmd).to_options().fallback_to_usage()
}

// ---------------------------------------------------------------------------------------------
// adjacent subcommand chains (C19, C05)

fn kc_cmd() -> impl Parser<bool> {
    short('a').long("all").switch().to_options().command("c").adjacent()
}

/// `c [-a]` repeated, next to a top level switch and a positional tail
pub fn kc() -> OptionParser<(bool, Vec<bool>, Vec<u32>)> {
    let v = short('v').long("verbose").switch();
    let cmds = kc_cmd().many();
    let rest = positional::<u32>("REST").many();
    construct!(v, cmds, rest).to_options()
}

/// a switch evaluated *before* an optional adjacent option-struct (so the group may find
/// already-consumed items inside its block)
pub fn k3() -> OptionParser<(bool, Option<(u32, u32)>)> {
    let s = short('s').long("sw").switch();
    let r = rect().optional();
    construct!(s, r).to_options().help_parser(long("help").help("help"))
}

/// repeated adjacent option-struct after a switch
pub fn k4() -> OptionParser<(bool, Vec<(u32, u32)>)> {
    let s = short('s').long("sw").switch();
    let r = rect().many();
    construct!(s, r).to_options().help_parser(long("help").help("help"))
}

/// a *required* top level argument before a subcommand
pub fn c4() -> OptionParser<(u32, Cmd1)> {
    let t = short('t').long("top").argument::<u32>("T");
    let cmd = c1_add().command("add");
    construct!(t, cmd).to_options()
}

/// an optional subcommand whose failures are caught (`optional().catch()`)
pub fn c5() -> OptionParser<(bool, Option<Cmd1>)> {
    let v = short('v').long("verbose").switch();
    let cmd = c1_add().command("add").optional().catch();
    construct!(v, cmd).to_options()
}

/// a repeated subcommand
pub fn c6() -> OptionParser<(bool, Vec<Cmd1>)> {
    let v = short('v').long("verbose").switch();
    let cmd = c1_rm().command("rm").many();
    construct!(v, cmd).to_options()
}

fn c7_mid() -> OptionParser<(bool, Option<Inner2>)> {
    let m = short('m').long("mid").switch();
    let leaf = c2_leaf().command("leaf").map(Some);
    let none = pure(None);
    let sub = construct!([leaf, none]);
    construct!(m, sub).to_options()
}

/// depth 2 where the inner command is one branch of a choice whose other branch always succeeds
pub fn c7() -> OptionParser<(bool, (bool, Option<Inner2>))> {
    let v = short('v').long("verbose").switch();
    let mid = c7_mid().command("mid");
    construct!(v, mid).to_options()
}

#[derive(Debug, Clone, PartialEq)]
pub enum Alt8 {
    Seven(bool),
    Words(Vec<u32>),
}

fn c8_seven() -> OptionParser<Alt8> {
    let z = short('z').long("zed").switch();
    construct!(Alt8::Seven(z)).to_options()
}

fn c8_mid() -> OptionParser<(bool, Alt8)> {
    let m = short('m').long("mid").switch();
    let seven = c8_seven().command("7");
    let ws = positional::<u32>("W").many();
    let words = construct!(Alt8::Words(ws));
    let sub = construct!([seven, words]);
    construct!(m, sub).to_options()
}

/// depth 2, the inner command's name is valid data for the sibling branch (repeated positional)
pub fn c8() -> OptionParser<(bool, (bool, Alt8))> {
    let v = short('v').long("verbose").switch();
    let mid = c8_mid().command("mid");
    construct!(v, mid).to_options()
}

#[derive(Debug, Clone, PartialEq)]
pub enum Amb {
    Arg(u32),
    Flag,
}

/// a short name that is both a flag and an argument (ambiguous clusters), optional, next to a switch
pub fn am() -> OptionParser<(Option<Amb>, bool)> {
    let aa = short('a').long("arg").argument::<u32>("A").map(Amb::Arg);
    let af = short('a').long("flag").req_flag(Amb::Flag);
    let a = construct!([aa, af]).optional();
    let b = short('b').long("bee").switch();
    construct!(a, b).to_options()
}

fn c9_remote() -> OptionParser<Cmd1> {
    let add = c1_add().command("add");
    construct!([add]).to_options()
}

fn c9_stash() -> OptionParser<Cmd1> {
    let add = c1_rm().command("add");
    let stash = c1_add().command("stash");
    construct!([add, stash]).to_options()
}

/// the same command name at several places of the tree: `remote add`, `stash add`, `stash stash`
pub fn c9() -> OptionParser<(bool, Cmd1)> {
    let v = short('v').long("verbose").switch();
    let remote = c9_remote().command("remote");
    let stash = c9_stash().command("stash");
    let cmd = construct!([remote, stash]);
    construct!(v, cmd).to_options()
}

#[derive(Debug, Clone, PartialEq)]
pub enum Input {
    Stdin,
    File(u32),
}

fn f1_input() -> impl Parser<Input> {
    let stdin = short('i').long("stdin").req_flag(Input::Stdin);
    let file = positional::<u32>("FILE").map(Input::File);
    construct!([stdin, file])
}

/// a choice between a named flag and a positional, next to a switch
pub fn f1() -> OptionParser<(bool, Input)> {
    let v = short('v').long("verbose").switch();
    let input = f1_input();
    construct!(v, input).to_options()
}

fn f2_cat() -> OptionParser<Input> {
    let input = f1_input();
    construct!(input).to_options()
}

/// the same choice inside a subcommand
pub fn f2() -> OptionParser<(bool, Input)> {
    let v = short('v').long("verbose").switch();
    let cat = f2_cat().command("cat");
    construct!(v, cat).to_options()
}

/// non-ASCII long name and command name (typo suggestions compare against them)
pub fn un() -> OptionParser<(bool, Option<Cmd1>)> {
    let g = long("gr\u{f6}\u{df}e").switch();
    let cmd = c1_add().command("s\u{fc}d").optional();
    construct!(g, cmd).to_options()
}

/// a hidden *required* argument next to a switch
pub fn hr() -> OptionParser<(bool, u32)> {
    let v = short('v').long("verbose").switch();
    let t = short('t').long("token").argument::<u32>("T").hide();
    construct!(v, t).to_options()
}

fn shape() -> impl Parser<(u32, u32)> {
    let r = short('r').long("rect").req_flag(());
    let pt = point();
    construct!(r, pt).adjacent().map(|t| t.1)
}

/// nested adjacent groups: `--rect --point X Y` (the inner group is itself adjacent), repeated, next to a switch
pub fn k6() -> OptionParser<(Vec<(u32, u32)>, bool)> {
    let shapes = shape().many();
    let s = short('s').long("sw").switch();
    construct!(shapes, s).to_options()
}

fn gh_run() -> OptionParser<bool> {
    let d = short('d').long("dry-run").help("do nothing").switch();
    construct!(d).to_options().descr("run it")
}

/// a `group_help` section that starts with a flag and also holds a command
pub fn gh() -> OptionParser<(bool, bool)> {
    let v = short('v').long("verbose").help("be loud").switch();
    let run = gh_run().command("run").help("run it");
    construct!(v, run).group_help("Main operation").to_options()
}

#[derive(Debug, Clone, PartialEq)]
pub enum In3 {
    Verb(usize),
    File(OsString),
}

/// a choice whose first branch always succeeds (counted flag) and whose second takes any word
pub fn f3() -> OptionParser<In3> {
    let v = short('v').long("verbose").req_flag(()).count().map(In3::Verb);
    let f = positional::<OsString>("FILE").map(In3::File);
    construct!([v, f]).to_options()
}

/// g4's grammar built from the less common combinators: boxed, collect, group_help, custom defaults,
/// hide_usage, pure_with, header / footer / max_width (and `complete` where the feature exists)
pub fn x1() -> OptionParser<(bool, Vec<u32>, u32, u32)> {
    let a = short('a').long("alpha").help("alpha").switch().boxed();
    let d = short('d').long("delta").argument::<u32>("D");
    #[cfg(feature = "full")]
    let d = d.complete(|_| vec![("1", None), ("2", Some("two"))]);
    let d = d.collect::<Vec<u32>>().group_help("numbers");
    let f = short('f').long("fall").argument::<u32>("F").fallback(1).hide_usage();
    let p = pure_with(|| Ok::<u32, String>(7));
    construct!(a, d, f, p).to_options().header("zoo header").footer("zoo footer").max_width(72)
}

/// everything that is not the switch goes to `any(..).many()`
pub fn x2() -> OptionParser<(bool, Vec<OsString>)> {
    let v = short('v').long("verbose").switch();
    let rest = any::<OsString, _, _>("REST", Some).many();
    construct!(v, rest).to_options()
}

/// a choice that ends in `fail`
pub fn x4() -> OptionParser<(u32, bool)> {
    let a = short('a').long("alpha").req_flag(1u32);
    let b = short('b').long("beta").req_flag(2u32);
    let f = fail("pick --alpha or --beta");
    let c = construct!([a, b, f]);
    let s = short('s').long("sw").switch();
    construct!(c, s).to_options()
}

fn kv_drink() -> OptionParser<bool> {
    let c = short('c').long("coffee").switch();
    construct!(c).to_options().version("1.2").descr("have a drink")
}

/// repeated *adjacent* subcommand with its own version, top level without one
pub fn kv() -> OptionParser<(bool, Vec<bool>)> {
    let p = short('p').long("pour").switch();
    let d = kv_drink().command("drink").adjacent().many();
    construct!(p, d).to_options()
}

/// top-level choice whose FIRST branch (repeated positional) can swallow the name of the command in the second
pub fn cr() -> OptionParser<Alt8> {
    let ws = positional::<u32>("W").many();
    let words = construct!(Alt8::Words(ws));
    let seven = c8_seven().command("7");
    construct!([words, seven]).to_options()
}

/// help text with a fenced code block (the splitter treats it differently with `docgen`)
pub fn fc() -> OptionParser<bool> {
    let a = short('a').long("alpha").help("first line\n\n```\ncode  one\ncode  two\n```\nlast line").switch();
    construct!(a).to_options()
}

/// an adjacent option-struct whose argument has a user completer, between a switch and an argument of the level
pub fn ka() -> OptionParser<(bool, Option<(u32, bool)>, Option<u32>)> {
    let v = short('v').long("verbose").switch();
    let r = short('r').long("rect").req_flag(());
    let w = short('w').long("width").argument::<u32>("W");
    #[cfg(feature = "full")]
    let w = w.complete(|_| vec![("1", None), ("2", Some("two"))]);
    let f = short('f').long("fill").switch();
    let rect = construct!(r, w, f).adjacent().map(|t| (t.1, t.2)).optional();
    let o = short('o').long("output").argument::<u32>("OUT").optional();
    construct!(v, rect, o).to_options()
}

/// switch declared before a repeated argument (the switch's consumption precedes the loop)
pub fn g4() -> OptionParser<(bool, Vec<u32>, u32)> {
    let a = short('a').long("alpha").switch();
    let d = short('d').long("delta").argument::<u32>("D").many();
    let f = short('f').long("fall").argument::<u32>("F").fallback(1);
    construct!(a, d, f).to_options()
}

/// group of two required arguments under `fallback_with`
fn grp_ab_fw() -> impl Parser<(u32, u32)> {
    grp_ab().fallback_with(|| Ok::<_, String>((0, 0)))
}

pub fn o3() -> OptionParser<((u32, u32), bool)> {
    let g = grp_ab_fw();
    let s = short('s').long("sw").switch();
    construct!(g, s).to_options()
}

#[derive(Debug, Clone, PartialEq)]
pub enum Flag3 {
    A,
    B,
    C,
}

fn flag3() -> impl Parser<Flag3> {
    let a = short('a').long("alpha").req_flag(Flag3::A);
    let b = short('b').long("beta").req_flag(Flag3::B);
    let c = short('c').long("gamma").req_flag(Flag3::C);
    construct!([a, b, c])
}

fn flag3c() -> impl Parser<Flag3> {
    let a = pure(Flag3::A).to_options().command("go").adjacent();
    let b = short('b').long("beta").req_flag(Flag3::B);
    let c = short('c').long("gamma").req_flag(Flag3::C);
    construct!([a, b, c])
}

/// repeated choice between an adjacent command (a bare word) and two flags
pub fn a5() -> OptionParser<(bool, Vec<Flag3>)> {
    let s = short('s').long("sw").switch();
    let alt = flag3c().many();
    construct!(s, alt).to_options()
}

/// repeated choice between three flags
pub fn a4() -> OptionParser<(Vec<Flag3>, bool)> {
    let alt = flag3().many();
    let s = short('s').long("sw").switch();
    construct!(alt, s).to_options()
}

// ---------------------------------------------------------------------------------------------
// byte-exact probes for the text layer (C02): OsString values, so nothing is lost in conversion


/// switch -a, switch with a two-byte short name, OsString argument -b/--beta (optional), OsString positionals
pub fn pt() -> OptionParser<(bool, bool, Option<OsString>, Vec<OsString>)> {
    let a = short('a').long("alpha").switch();
    let e = short('\u{e9}').long("eacute").switch();
    let b = short('b').long("beta").argument::<OsString>("B").optional();
    let xs = positional::<OsString>("XS").many();
    construct!(a, e, b, xs).to_options()
}


/// pt with an `adjacent()` restriction on -b/--beta
pub fn pj() -> OptionParser<(bool, bool, Option<OsString>, Vec<OsString>)> {
    let a = short('a').long("alpha").switch();
    let e = short('\u{e9}').long("eacute").switch();
    let b = short('b').long("beta").argument::<OsString>("B").adjacent().optional();
    let xs = positional::<OsString>("XS").many();
    construct!(a, e, b, xs).to_options()
}

/// byte-exact targets: PathBuf and OsString arguments / positional
pub fn pp() -> OptionParser<(Option<std::path::PathBuf>, Option<OsString>, Vec<std::path::PathBuf>)> {
    let p = short('p').long("path").argument::<std::path::PathBuf>("P").optional();
    let o = short('o').long("os").argument::<OsString>("O").optional();
    let xs = positional::<std::path::PathBuf>("XS").many();
    construct!(p, o, xs).to_options()
}

fn rw() -> impl Parser<u32> {
    let r = short('r').long("rect").req_flag(());
    let w = short('w').long("width").argument::<u32>("W");
    construct!(r, w).adjacent().map(|t| t.1)
}

/// switch evaluated before a small adjacent group, positional after it
pub fn k5() -> OptionParser<(bool, Option<u32>, Option<u32>)> {
    let s = short('s').long("sw").switch();
    let g = rw().optional();
    let z = positional::<u32>("Z").optional();
    construct!(s, g, z).to_options()
}

// ---------------------------------------------------------------------------------------------
// completion (C14): a hidden item next to visible ones

/// visible switch and argument, hidden switch, positional
pub fn hd() -> OptionParser<(bool, bool, Option<u32>, Option<u32>)> {
    let a = short('a').long("alpha").switch();
    let s = short('s').long("secret").switch().hide();
    let b = short('b').long("beta").argument::<u32>("B").optional();
    let x = positional::<u32>("X").optional();
    construct!(a, s, b, x).to_options()
}

/// user-controlled texts of the documentation jobs: `VERIF_TEXT<i>` in the environment, "a" otherwise
/// (the symbolic executor replaces this function by symbolic bytes)
pub fn user_text(i: usize) -> &'static str {
    match std::env::var(format!("VERIF_TEXT{}", i)) {
        Ok(s) => Box::leak(s.into_boxed_str()),
        Err(_) => "a",
    }
}

/// every free text a definition can carry comes from `user_text`: item help, group help, descr, header, footer
pub fn ut() -> OptionParser<(bool, u32)> {
    let a = short('a').long("alpha").help(user_text(0)).switch();
    let b = short('b').long("beta").help("beta").argument::<u32>("B");
    construct!(a, b).group_help(user_text(1)).to_options().descr(user_text(2)).header(user_text(3)).footer(user_text(4))
}

/// two required arguments, fallback_to_usage: the usage text answers the *empty* line only
pub fn fu() -> OptionParser<(u32, u32)> {
    let a = short('a').long("alpha").argument::<u32>("A");
    let b = short('b').long("beta").argument::<u32>("B");
    construct!(a, b).to_options().fallback_to_usage()
}

/// group help given as a styled document: a non-ASCII fragment that ends its line, then an emphasised one
pub fn gd() -> OptionParser<(bool, Option<u32>)> {
    let a = short('a').long("alpha").switch();
    let b = short('b').long("beta").argument::<u32>("B").optional();
    let mut d = bpaf::doc::Doc::default();
    d.text("\u{e9}\n");
    d.emphasis("x");
    construct!(a, b).group_help(d).to_options()
}

/// an env-backed switch under a guard, after an argument that consumes a word (guard messages quote State::current)
pub fn eg() -> OptionParser<(u32, bool)> {
    let n = short('n').long("num").argument::<u32>("N");
    let f = short('f').long("force").env("VERIF_G").switch().guard(|f| !*f, "forcing is not supported");
    construct!(n, f).to_options()
}

fn alt3_group_first() -> impl Parser<Alt> {
    let a = short('a').long("alpha").req_flag(Alt::A);
    let b = short('b').long("beta").argument::<u32>("B").map(Alt::B);
    let c = alt_c();
    construct!([c, a, b])
}

/// bare choice with the two-argument group declared FIRST (a partially typed group fails after consuming)
pub fn a6() -> OptionParser<(Alt, bool)> {
    let alt = alt3_group_first();
    let s = short('s').long("sw").switch();
    construct!(alt, s).to_options()
}

/// the same choice, repeated
pub fn a7() -> OptionParser<(Vec<Alt>, bool)> {
    let alt = alt3_group_first().many();
    let s = short('s').long("sw").switch();
    construct!(alt, s).to_options()
}
