use bpaf::*;

// ---------------------------------------------------------------------------------------------
// G1: one of each named shape
pub fn g1() -> OptionParser<(bool, u32, Option<u32>, Vec<u32>)> {
    let a = short('a').long("alpha").switch();
    let b = short('b').long("beta").argument::<u32>("B");
    let c = short('c').long("gamma").argument::<u32>("C").optional();
    let d = short('d').long("delta").argument::<u32>("D").many();
    construct!(a, b, c, d).to_options()
}
