//! C17 corpus: every `#[derive(Bpaf)]` type sits next to the hand written combinator parser the
//! documentation says it is equivalent to.  mirsym executes both builders from MIR (the derive
//! macro's output is part of this crate's MIR) and compares them on symbolic argument vectors.
use bpaf::*;

// ---- named fields: bool / Option / Vec / plain, kebab-case, single letter names ----------------

/// derived options
#[derive(Debug, Clone, PartialEq, Bpaf)]
#[bpaf(options)]
pub struct D1 {
    /// be loud
    verbose: bool,
    jobs_count: u32,
    name: Option<u32>,
    ids: Vec<u32>,
    x: bool,
}

pub fn d1_manual() -> OptionParser<D1> {
    let verbose = long("verbose").help("be loud").switch();
    let jobs_count = long("jobs-count").argument::<u32>("ARG");
    let name = long("name").argument::<u32>("ARG").optional();
    let ids = long("ids").argument::<u32>("ARG").many();
    let x = short('x').switch();
    construct!(D1 { verbose, jobs_count, name, ids, x }).to_options().descr("derived options")
}

// ---- unnamed fields: positionals in declaration order ---------------------------------------------

#[derive(Debug, Clone, PartialEq, Bpaf)]
#[bpaf(options)]
pub struct D2(u32, Option<u32>);

pub fn d2_manual() -> OptionParser<D2> {
    let a = positional::<u32>("ARG");
    let b = positional::<u32>("ARG").optional();
    construct!(D2(a, b)).to_options()
}

// ---- enum: unit variants are required flags, struct variants groups, `command` variants commands -----

#[derive(Debug, Clone, PartialEq, Bpaf)]
#[bpaf(options)]
pub enum D3 {
    /// pick alpha
    Alpha,
    Beta {
        val: u32,
    },
    #[bpaf(command)]
    Run {
        fast: bool,
    },
}

fn d3_beta() -> impl Parser<D3> {
    let val = long("val").argument::<u32>("ARG");
    construct!(D3::Beta { val })
}

fn d3_run() -> impl Parser<D3> {
    let fast = long("fast").switch();
    construct!(D3::Run { fast }).to_options().command("run")
}

pub fn d3_manual() -> OptionParser<D3> {
    let alpha = long("alpha").help("pick alpha").req_flag(D3::Alpha);
    let beta = d3_beta();
    let run = d3_run();
    construct!([alpha, beta, run]).to_options()
}

// ---- explicit annotations override exactly what they name ------------------------------------------

#[derive(Debug, Clone, PartialEq, Bpaf)]
#[bpaf(options, version("7.7"))]
pub struct D4 {
    #[bpaf(short, long("speed"), argument("SPEED"), fallback(5))]
    spd: u32,
    #[bpaf(short('q'), long)]
    quiet: bool,
    #[bpaf(long, env("VERIF_D4"))]
    token: Option<u32>,
    #[bpaf(positional("FILE"))]
    file: u32,
}

pub fn d4_manual() -> OptionParser<D4> {
    let spd = short('s').long("speed").argument::<u32>("SPEED").fallback(5);
    let quiet = short('q').long("quiet").switch();
    let token = long("token").env("VERIF_D4").argument::<u32>("ARG").optional();
    let file = positional::<u32>("FILE");
    construct!(D4 { spd, quiet, token, file }).to_options().version("7.7")
}

// ---- raw identifiers, bare `short` / `long`, single letter and multi-underscore names -----------

#[derive(Debug, Clone, PartialEq, Bpaf)]
#[bpaf(options)]
pub struct D5 {
    #[bpaf(short, long)]
    r#type: u32,
    #[bpaf(short)]
    r#loop: bool,
    #[bpaf(long)]
    very_long_name_here: Option<u32>,
    #[bpaf(short, long)]
    z: bool,
}

pub fn d5_manual() -> OptionParser<D5> {
    let r#type = short('t').long("type").argument::<u32>("ARG");
    let r#loop = short('l').switch();
    let very_long_name_here = long("very-long-name-here").argument::<u32>("ARG").optional();
    let z = short('z').long("z").switch();
    construct!(D5 { r#type, r#loop, very_long_name_here, z }).to_options()
}

// ---- unusual identifiers: consecutive / leading underscores, digits ---------------------------------

#[derive(Debug, Clone, PartialEq, Bpaf)]
#[bpaf(options)]
#[allow(non_snake_case)]
pub struct D6 {
    dry__run: bool,
    _quiet: bool,
    http2_port: Option<u32>,
    V: bool,
    N: Option<u32>,
}

#[allow(non_snake_case)]
pub fn d6_manual() -> OptionParser<D6> {
    let dry__run = long("dry--run").switch();
    let _quiet = long("-quiet").switch();
    let http2_port = long("http2-port").argument::<u32>("ARG").optional();
    // single-character names become short names - lower-cased like every derived name
    let V = short('v').switch();
    let N = short('n').argument::<u32>("ARG").optional();
    construct!(D6 { dry__run, _quiet, http2_port, V, N }).to_options()
}

// ---- variant names with acronyms and digits: every capital starts a new word ---------------------------

#[derive(Debug, Clone, PartialEq, Bpaf)]
#[bpaf(options)]
pub enum D7 {
    HTTPServer,
    GetV2 {
        max_items: u32,
    },
    #[bpaf(command)]
    RunTLSCheck {
        deep: bool,
    },
}

fn d7_get() -> impl Parser<D7> {
    let max_items = long("max-items").argument::<u32>("ARG");
    construct!(D7::GetV2 { max_items })
}

fn d7_run() -> impl Parser<D7> {
    let deep = long("deep").switch();
    construct!(D7::RunTLSCheck { deep }).to_options().command("run-t-l-s-check")
}

pub fn d7_manual() -> OptionParser<D7> {
    let http = long("h-t-t-p-server").req_flag(D7::HTTPServer);
    let get = d7_get();
    let run = d7_run();
    construct!([http, get, run]).to_options()
}

// ---- doc comment blocks (descr / header / footer) next to explicit annotations --------------------

/// doc descr
///
///
/// doc header
///
///
/// doc footer
#[derive(Debug, Clone, PartialEq, Bpaf)]
#[bpaf(options, descr("explicit descr"))]
pub struct D8 {
    /// a flag
    flag: bool,
}

pub fn d8_manual() -> OptionParser<D8> {
    let flag = long("flag").help("a flag").switch();
    construct!(D8 { flag }).to_options().descr("explicit descr").header("doc header").footer("doc footer")
}

/// doc descr
///
///
/// doc header
///
///
/// doc footer
#[derive(Debug, Clone, PartialEq, Bpaf)]
#[bpaf(options, header("explicit header"))]
pub struct D9 {
    flag: bool,
}

pub fn d9_manual() -> OptionParser<D9> {
    let flag = long("flag").switch();
    construct!(D9 { flag }).to_options().descr("doc descr").header("explicit header").footer("doc footer")
}

/// only a description
#[derive(Debug, Clone, PartialEq, Bpaf)]
#[bpaf(options, descr("explicit descr"))]
pub struct D10 {
    flag: bool,
}

pub fn d10_manual() -> OptionParser<D10> {
    let flag = long("flag").switch();
    construct!(D10 { flag }).to_options().descr("explicit descr")
}

macro_rules! dcorpus {
    ($($name:literal => $e:expr),* $(,)?) => {
        pub fn run_derived(name: &str, args: &[std::ffi::OsString]) -> Option<String> {
            match name {
                $($name => Some(crate::show($e.run_inner(args))),)*
                _ => None,
            }
        }
    };
}

dcorpus!(
    "d1_derive" => d1(), "d1_manual" => d1_manual(),
    "d2_derive" => d2(), "d2_manual" => d2_manual(),
    "d3_derive" => d3(), "d3_manual" => d3_manual(),
    "d4_derive" => d4(), "d4_manual" => d4_manual(),
    "d5_derive" => d5(), "d5_manual" => d5_manual(),
    "d6_derive" => d6(), "d6_manual" => d6_manual(),
    "d7_derive" => d7(), "d7_manual" => d7_manual(),
    "d8_derive" => d8(), "d8_manual" => d8_manual(),
    "d9_derive" => d9(), "d9_manual" => d9_manual(),
    "d10_derive" => d10(), "d10_manual" => d10_manual(),
);
