//! Native replay: reads cases from stdin, one per line
//!     <grammar> TAB <hex,hex,...> TAB <NAME=hex;NAME=hex;...>
//! (argv items are `x` + hex-encoded bytes, env values plain hex; `-` for an empty list) and prints
//!     <class> TAB <payload>
//! where class is ok | stdout | stderr | completion | panic | unknown-grammar.
use std::ffi::OsString;
use std::io::BufRead;
use std::os::unix::ffi::OsStringExt;

fn unhex(s: &str) -> Vec<u8> {
    (0..s.len() / 2).map(|i| u8::from_str_radix(&s[2 * i..2 * i + 2], 16).unwrap()).collect()
}

fn main() {
    if std::env::args().nth(1).as_deref() == Some("--check-invariants") {
        vharness::check_all();
        println!("invariants ok");
        return;
    }
    if std::env::args().nth(1).as_deref() == Some("--run") {
        // real-process mode: argv[2] = grammar, parsing happens on the OS argument vector through
        // OptionParser::run(); to keep argv[0..3] out of the way the process re-executes itself with
        // the remaining arguments (see --run-inner below)
        let g = std::env::args().nth(2).unwrap();
        let exe = std::env::current_exe().unwrap();
        use std::os::unix::process::CommandExt;
        let err = std::process::Command::new(exe).arg0(format!("app-{}", g)).args(std::env::args_os().skip(3)).env("VHARNESS_RUN", g).exec();
        panic!("exec failed: {err}");
    }
    if let Ok(g) = std::env::var("VHARNESS_RUN") {
        match vharness::run_real(&g) {
            Some(v) => println!("VALUE\t{}", v),
            None => println!("unknown-grammar"),
        }
        return;
    }
    std::panic::set_hook(Box::new(|_| {}));
    let stdin = std::io::stdin();
    for line in stdin.lock().lines() {
        let line = line.unwrap();
        let mut parts = line.split('\t');
        let g = parts.next().unwrap_or("");
        let a = parts.next().unwrap_or("-");
        let e = parts.next().unwrap_or("-");
        let args: Vec<OsString> = if a == "-" || a.is_empty() {
            Vec::new()
        } else {
            a.split(',').map(|h| OsString::from_vec(unhex(&h[1..]))).collect()
        };
        let mut set = Vec::new();
        if e != "-" && !e.is_empty() {
            for kv in e.split(';') {
                let (k, v) = kv.split_once('=').unwrap();
                std::env::set_var(k, OsString::from_vec(unhex(v)));
                set.push(k.to_string());
            }
        }
        let g2 = g.to_string();
        let r = std::panic::catch_unwind(move || {
            if g2.starts_with("probe:") {
                vharness::run_probe(&g2, &args)
            } else if let Some(rest) = g2.strip_prefix("doc:") {
                // doc:<md|html|man>:<grammar> => generated documentation (docgen builds only)
                #[cfg(feature = "full")]
                {
                    let (fmt, name) = rest.split_once(':')?;
                    return vharness::render_doc(name, fmt).map(|d| format!("doc\t{:?}", d));
                }
                #[cfg(not(feature = "full"))]
                {
                    let _ = rest;
                    None
                }
            } else {
                #[cfg(feature = "derive")]
                if let Some(r) = vharness::derived::run_derived(&g2, &args) {
                    return Some(r);
                }
                vharness::run_named(&g2, &args)
            }
        });
        for k in set {
            std::env::remove_var(k);
        }
        match r {
            Ok(Some(s)) => println!("{}", s),
            Ok(None) => println!("unknown-grammar\t{}", g),
            Err(p) => {
                let msg = p.downcast_ref::<String>().cloned().or_else(|| p.downcast_ref::<&str>().map(|s| s.to_string())).unwrap_or_default();
                println!("panic\t{:?}", msg)
            }
        }
    }
}
