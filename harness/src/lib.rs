//! Grammar corpus for the solver-based checks of pacak/bpaf.
//!
//! Every function in `grammars` builds a parser from bpaf's *own* combinators and macros; mirsym
//! executes the MIR of these builders (so the `construct!` closures and the builder methods are
//! the real ones) and the native replay binary links the very same functions.
//!
//! All typed values are `u32` so that "present but invalid" is possible for every value item.
#![allow(clippy::type_complexity)]
use std::ffi::OsString;

pub mod grammars;

fn show<T: std::fmt::Debug>(r: Result<T, bpaf::ParseFailure>) -> String {
    match r {
        Ok(v) => format!("ok\t{:?}", v),
        Err(bpaf::ParseFailure::Stdout(d, full)) => format!("stdout\t{:?}", d.monochrome(full)),
        Err(bpaf::ParseFailure::Completion(s)) => format!("completion\t{:?}", s),
        Err(bpaf::ParseFailure::Stderr(d)) => format!("stderr\t{:?}", d.monochrome(true)),
    }
}

macro_rules! corpus {
    ($($name:ident),* $(,)?) => {
        pub const NAMES: &[&str] = &[$(stringify!($name)),*];
        /// run grammar `name` on `args` through the public API (`run_inner`)
        pub fn run_named(name: &str, args: &[OsString]) -> Option<String> {
            match name {
                $(stringify!($name) => Some(show(grammars::$name().run_inner(args))),)*
                _ => None,
            }
        }
        /// `check_invariants` of every grammar (so the corpus stays inside the property's quantifier)
        pub fn check_all() {
            $(grammars::$name().check_invariants(false);)*
        }
    };
}

corpus!(g1, g2, g3, p1, p2, p3, p4, p5, c1, c2, c3, v1, v2, v3, o1, o2, a1, a2, a3, e1, j1, k1, k2, h1, h2, kc, k3, k4, c4, g4, o3, a4);
