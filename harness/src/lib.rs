//! Grammar corpus for the solver-based checks of pacak/bpaf.
//!
//! Every function in `grammars` builds a parser from bpaf's *own* combinators and macros; mirsym
//! executes the MIR of these builders (so the `construct!` closures and the builder methods are
//! the real ones) and the native replay binary links the very same functions.
//!
//! All typed values are `u32` so that "present but invalid" is possible for every value item.
#![allow(clippy::type_complexity)]
use std::ffi::OsString;

pub mod grammars;
#[cfg(feature = "derive")]
pub mod derived;

fn show<T: std::fmt::Debug>(r: Result<T, bpaf::ParseFailure>) -> String {
    match r {
        Ok(v) => format!("ok\t{:?}", v),
        Err(bpaf::ParseFailure::Stdout(d, full)) => format!("stdout\t{:?}", d.monochrome(full)),
        Err(bpaf::ParseFailure::Completion(s)) => format!("completion\t{:?}", s),
        Err(bpaf::ParseFailure::Stderr(d)) => format!("stderr\t{:?}", d.monochrome(true)),
    }
}

macro_rules! corpus {
    ($($name:ident),* $(,)?) => {
        pub const NAMES: &[&str] = &[$(stringify!($name)),*];
        /// run grammar `name` on `args` through the public API (`run_inner`)
        pub fn run_named(name: &str, args: &[OsString]) -> Option<String> {
            if name == "g1n" {
                // same grammar, application name set (as `run()` does from argv[0])
                return Some(show(grammars::g1().run_inner(bpaf::Args::from(args).set_name("app"))));
            }
            match name {
                $(stringify!($name) => Some(show(grammars::$name().run_inner(args))),)*
                _ => None,
            }
        }
        /// `OptionParser::run()` in this very process (prints / exits like a real program would)
        pub fn run_real(name: &str) -> Option<String> {
            match name {
                $(stringify!($name) => Some(format!("{:?}", grammars::$name().run())),)*
                _ => None,
            }
        }
        /// generated documentation of grammar `name` (`md`, `html`, anything else: manpage)
        #[cfg(feature = "full")]
        pub fn render_doc(name: &str, fmt: &str) -> Option<String> {
            match name {
                $(stringify!($name) => {
                    let p = grammars::$name();
                    Some(match fmt {
                        "md" => p.render_markdown("app"),
                        "html" => p.render_html("app"),
                        _ => {
                            // the three free-text arguments of render_manpage: VERIF_TEXT5..7 when set
                            let t = |i: usize| std::env::var(format!("VERIF_TEXT{}", i)).ok();
                            let (d, v, a) = (t(5), t(6), t(7));
                            p.render_manpage("app", bpaf::doc::Section::General, d.as_deref(), v.as_deref(), a.as_deref())
                        }
                    })
                })*
                _ => None,
            }
        }
        /// `check_invariants` of every grammar (so the corpus stays inside the property's quantifier)
        pub fn check_all() {
            $(grammars::$name().check_invariants(false);)*
        }
    };
}

/// dynamic probe used to confirm tokenizer counterexamples through the public API:
/// `probe:short:<hex utf8 of one char>` / `probe:long:<hex utf8 name>` build
/// `NAME.argument::<OsString>("V").many()`, `NAME.req_flag(()).many()` and OsString positionals
pub fn run_probe(spec: &str, args: &[OsString]) -> Option<String> {
    use bpaf::*;
    let mut it = spec.split(':');
    if it.next()? != "probe" {
        return None;
    }
    let kind = it.next()?;
    let hex = it.next()?;
    let bytes: Vec<u8> = (0..hex.len() / 2).map(|i| u8::from_str_radix(&hex[2 * i..2 * i + 2], 16).unwrap()).collect();
    let name: &'static str = Box::leak(String::from_utf8(bytes).ok()?.into_boxed_str());
    if kind == "help" {
        // `probe:help:<hex utf8>`: a switch whose help text is the given string; full help (`--help --help`)
        let p = short('a').long("alpha").help(name).switch().to_options();
        return Some(show(p.run_inner(&["--help", "--help"])));
    }
    let named = || match kind {
        "short" => short(name.chars().next().unwrap()),
        _ => long(name),
    };
    let vals = named().argument::<OsString>("V").many();
    let xs = positional::<OsString>("XS").many();
    let with_val = construct!(vals, xs).to_options();
    let flags = named().req_flag(()).many().map(|v| v.len());
    let ys = positional::<OsString>("YS").many();
    let as_flag = construct!(flags, ys).to_options();
    Some(format!("{}\t{}", show(with_val.run_inner(args)), show(as_flag.run_inner(args))))
}

corpus!(g1, g2, g3, p1, p2, p3, p4, p5, c1, c2, c3, v1, v2, v3, o1, o2, a1, a2, a3, e1, j1, k1, k2, h1, h2, kc, k3, k4, c4, g4, o3, a4, pt, pp, k5, hd, c5, c6, c7, c8, am, c9, f1, f2, un, hr, k6, gh, f3, x1, x2, x4, pj, kv, p6, cr, fc, ka, a5, ut, fu, gd, eg, a6, a7);
