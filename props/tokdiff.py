"""Differential token-layer job: run_subparser (from MIR) on a symbolic item vector vs an oracle.

A job = (grammar, shape of the argv words).  For every feasible path of the implementation the
oracle is explored on top of the path condition (Exec.sub_explore); any disagreement is handed to
the solver for a model, concretised into an argv and replayed against the native binary.
"""
import z3

from mirsym.engine import parse_callee, Unmodelled, ExecError, BoundExceeded, Panic
from mirsym.values import *
from mirsym.models import val_eq
from spec import grammar as G
from . import tok
from .framework import Replayer


def rust_debug_str(text):
    """`{:?}` of a str (char::escape_debug): quotes, backslashes, control and unprintable characters escaped"""
    out = ['"']
    for ch in text:
        if ch == '"':
            out.append('\\"')
        elif ch == "\\":
            out.append("\\\\")
        elif ch == "\n":
            out.append("\\n")
        elif ch == "\r":
            out.append("\\r")
        elif ch == "\t":
            out.append("\\t")
        elif ch == "\0":
            out.append("\\0")
        elif ch.isprintable():
            out.append(ch)
        else:
            out.append("\\u{%x}" % ord(ch))
    out.append('"')
    return "".join(out)


def fmt_debug(cz, v, layout=None):
    """mirsym value -> Rust `{:?}` text under the concretizer's model"""
    t = type(v)
    if v is True:
        return "true"
    if v is False:
        return "false"
    if t is int:
        return str(v)
    if is_sym(v):
        mv = cz.m.eval(v, model_completion=True)
        if z3.is_bool(mv):
            return "true" if z3.is_true(mv) else "false"
        return str(mv.as_long())
    if t is tuple:
        if len(v) == 0:
            return "()"
        if len(v) == 1:
            return "(%s,)" % fmt_debug(cz, v[0], layout)
        return "(" + ", ".join(fmt_debug(cz, x, layout) for x in v) + ")"
    if t is Seq:
        return "[" + ", ".join(fmt_debug(cz, x, layout) for x in v.items) + "]"
    if t is Opaque and v.tag == "u32":
        s = cz.string(v.payload[0].term if isinstance(v.payload[0], SymStr) else cz.ex.intern(v.payload[0]))
        return str(int(s))
    if t is str:
        return '"%s"' % v
    if t is SymStr:
        return rust_debug_str(cz.string(v.term))
    if t is Adt:
        if v.ty == "Option":
            return "None" if v.var == 0 else "Some(%s)" % fmt_debug(cz, v.fields[0], layout)
        if v.ty == "Result":
            return ("Ok(%s)" if v.var == 0 else "Err(%s)") % fmt_debug(cz, v.fields[0], layout)
        a = layout.adts[v.ty]
        if a["kind"] == "enum":
            name, fl = a["variants"][v.var]
        else:
            name, fl = v.ty, a["fields"]
        if not fl:
            return name
        if fl[0].isdigit():
            return name + "(" + ", ".join(fmt_debug(cz, x, layout) for x in v.fields) + ")"
        return name + " { " + ", ".join("%s: %s" % (n, fmt_debug(cz, x, layout)) for n, x in zip(fl, v.fields)) + " }"
    raise ExecError("cannot print %r" % (v,))


class TokOracle:
    """base class: what a property assumes about the inputs and how it judges a path"""
    name = "base"
    assumptions = []

    def assume(self, ex, g, words, parser):
        pass

    def judge(self, ex, g, words, cls, payload, state, report):
        raise NotImplementedError


def help_names(ex, parser):
    """(shorts, longs) of the help and version NamedArg inside the OptionParser value"""
    L = ex.prog.layout
    info = parser.fields[L.adts["OptionParser"]["fields"].index("info")]
    fl = L.adts["Info"]["fields"]
    out = []
    for nm in ("help_arg", "version_arg"):
        na = info.fields[fl.index(nm)]
        nf = L.adts["NamedArg"]["fields"]
        from mirsym.models import rda
        out.append(([rda(x) for x in na.fields[nf.index("short")].items], [rda(x) for x in na.fields[nf.index("long")].items]))
    has_version = info.fields[fl.index("version")].var == 1
    return out[0], out[1], has_version


def assume_not_named(ex, words, shorts, longs):
    for w in words:
        if w.form in ("short", "short=", "shortv"):
            for s in shorts:
                ex.assume(w.name != s)
        elif w.form in ("long", "long="):
            for l in longs:
                ex.assume(w.name != ex.intern(l))


def spec_env(ex):
    return G.Env(valid=lambda t: tok.VALID(t), guard=None, value=lambda t: tok.U32OF(t),
                 env_set=lambda t: tok.ENVSET(t if not isinstance(t, int) else z3.IntVal(t)),
                 env_val=lambda t: tok.ENVVAL(t if not isinstance(t, int) else z3.IntVal(t)),
                 intern=lambda s: ex.intern(s))


def run_tok_job(job, build, corpus, oracle, max_validate=400, step_budget=600000, models=None):
    fs = job.get("fs", "none")
    prog = tok.load_program(build, fs)
    ex = tok.new_exec(prog, models=models, step_budget=step_budget)
    g = corpus[job["grammar"]]
    shape = tuple(job["shape"])
    layout = prog.layout
    out = {"stats": None, "cex": [], "inconclusive": [], "samples": [], "validate": [], "nontrivial": 0,
           "classes": {}, "spec_leaves": 0}
    ex.declared_env = set(g.env_names)
    ex.conv = getattr(g, "conv", "u32")

    def harness(ex):
        parser = ex.call(parse_callee(g.builder), [])
        words = tok.gen_words_sharded(ex, sum(tok.FORM_ITEMS[f] for f in shape), g.decl, shape)
        oracle.assume(ex, g, words, parser)
        items = tok.words_to_items(ex, words)
        st = Cell(tok.mk_state(ex, items, path=job.get("path", ())), "state")
        pc = Cell(parser, "parser")
        res = ex.call(parse_callee("OptionParser::run_subparser"), [Ref(pc, ()), Ref(st, ())])
        return (words, res, st.v, parser)

    def report(kind, words, predicted, expected, extra=None):
        if extra is not None and not isinstance(extra, dict):
            extra = repr(extra)[:600]
        expected = [x if isinstance(x, (str, int, type(None))) else repr(x)[:600] for x in expected]
        m = ex.model()
        cz = tok.Concretizer(ex, m)
        argv = cz.argv(words)
        env = cz.env(g.env_names)
        pv = None
        if predicted[0] == "ok":
            pv = fmt_debug(cz, predicted[1], layout)
        out["cex"].append({"kind": kind, "grammar": job["grammar"], "shape": list(shape), "argv": argv, "env": env,
                           "predicted": [predicted[0], pv], "expected": expected, "extra": extra})

    def on_path(ex, r):
        if r.kind == "panic":
            # the words are not available through the exception: regenerate from notes
            words = ex.notes_words
            out["classes"]["panic"] = out["classes"].get("panic", 0) + 1
            m = ex.model()
            cz = tok.Concretizer(ex, m)
            out["cex"].append({"kind": "panic", "grammar": job["grammar"], "shape": list(shape), "argv": cz.argv(words),
                               "env": cz.env(g.env_names), "predicted": ["panic", str(r.info)], "expected": "no panic", "extra": None})
            return
        if r.kind == "halt":
            out["inconclusive"].append("process::exit reached in run_subparser")
            return
        words, res, state, parser = r.value
        cls, payload = tok.classify(ex, res)
        out["classes"][cls] = out["classes"].get(cls, 0) + 1
        if ex.pc:
            out["nontrivial"] += 1
        # sample + native validation of the predicted outcome on one concrete member of the path
        if len(out["validate"]) < max_validate:
            m = ex.model()
            cz = tok.Concretizer(ex, m)
            argv = cz.argv(words)
            pv = fmt_debug(cz, payload, layout) if cls == "ok" else None
            out["validate"].append((job["grammar"], argv, cz.env(g.env_names), cls, pv))
            if len(out["samples"]) < 3:
                out["samples"].append({"grammar": job["grammar"], "argv": argv, "class": cls, "value": pv,
                                       "path_condition_size": len(ex.pc)})
        oracle.judge(ex, g, words, cls, payload, state, report, out)

    # keep the words reachable for panic paths
    orig_gen = tok.gen_words_sharded

    def gen_and_note(ex_, n, decl, sh, allow_dd=True):
        w = orig_gen(ex_, n, decl, sh, allow_dd)
        ex_.notes_words = w
        return w
    tok.gen_words_sharded = gen_and_note
    try:
        ex.explore(harness, on_path, max_paths=job.get("max_paths", 200000))
    except Unmodelled as e:
        out["inconclusive"].append("UNMODELLED %s [%s]" % (e, "/".join(ex.callstack[-3:])))
    except BoundExceeded as e:
        # a path that exhausts the step budget: non-termination, or just a long run?  Ask the real code on one
        # concrete member of the path (the native run of any corpus input takes microseconds)
        hang = None
        try:
            m = ex.model()
            cz = tok.Concretizer(ex, m)
            argv = cz.argv(ex.notes_words)
            env = cz.env(g.env_names)
            if Replayer(build["sets"][fs]["replay"]).hangs((job["grammar"], argv, env), 10):
                hang = {"kind": "nontermination", "grammar": job["grammar"], "shape": list(shape), "argv": argv, "env": env,
                        "predicted": ["hang", None], "expected": ["any outcome within the step budget (%s)" % e], "extra": None,
                        "native": ["timeout", "no answer within 10 s"], "reproduced": True}
        except Exception:  # noqa: BLE001
            hang = None
        if hang:
            out["hang"] = hang
        out["inconclusive"].append("BOUND %s" % e)
    except ExecError as e:
        out["inconclusive"].append("EXEC-ERROR %s [%s]" % (e, "/".join(ex.callstack[-3:])))
    finally:
        tok.gen_words_sharded = orig_gen
    out["stats"] = dict(ex.stats)
    out["models_used"] = dict(ex.model_hits)
    out["fn_hits"] = dict(ex.fn_hits)
    # native replay of validation samples and counterexamples
    rp = Replayer(build["sets"][fs]["replay"])
    val = out.pop("validate")
    if val:
        got = rp.run([(gname, argv, env) for gname, argv, env, _, _ in val])
        agree = 0
        for (gname, argv, env, cls, pv), (ncls, npay) in zip(val, got):
            if ncls == cls and (cls != "ok" or npay == pv):
                agree += 1
            else:
                out["inconclusive"].append("ENCODING-MISMATCH %s argv=%r env=%r mirsym=%s %s native=%s %s" % (gname, argv, env, cls, pv, ncls, npay[:200]))
        out["validated"] = len(val)
        out["validated_agree"] = agree
    if out["cex"]:
        got = rp.run([(c["grammar"], c["argv"], c["env"]) for c in out["cex"]])
        for c, (ncls, npay) in zip(out["cex"], got):
            c["native"] = [ncls, npay[:2000]]
            pc_, pv_ = c["predicted"]
            c["reproduced"] = (ncls == pc_) and (pc_ != "ok" or npay == pv_)
            ex_ = c.get("extra")
            if c["reproduced"] and isinstance(ex_, dict) and ex_.get("native_text_none_of"):
                # message-level claims are confirmed on the rendered native text
                c["reproduced"] = not any(frag in npay for frag in ex_["native_text_none_of"])
    if out.get("hang"):
        out["cex"].append(out.pop("hang"))
    return out


def finish_tok(prop, results, jobs, build, out, tier, seed, wall, oracle, corpus, bounds, extra_assumptions=()):
    """aggregate tok jobs into Outcome + evidence dict"""
    from . import framework as fw
    if tier != "quick":
        bounds = dict(bounds)
        bounds["largest_size"] = tok.REDUCED_NOTE
    stats = fw.merge_stats(results)
    models = fw.merge_counts(results, "models_used")
    fnh = fw.merge_counts(results, "fn_hits")
    classes = fw.merge_counts(results, "classes")
    validated = sum(r.get("validated", 0) for r in results)
    agree = sum(r.get("validated_agree", 0) for r in results)
    nontrivial = sum(r.get("nontrivial", 0) for r in results)
    samples = []
    for r in results:
        if r.get("error"):
            out.inconc("job %s crashed: %s" % (r["job"], r["error"]))
            sys_trace = r.get("trace")
            if sys_trace:
                import sys
                sys.stderr.write(sys_trace + "\n")
        for w in r.get("inconclusive", []):
            out.inconc("%s: %s" % (r["job"], w))
        for s in r.get("samples", [])[:1]:
            if len(samples) < 12:
                samples.append(s)
        for c in r.get("cex", []):
            key = "%s:%s:%s" % (c["grammar"], c["kind"], " ".join(c["argv"]))
            what = "%s on grammar %s argv=%r env=%r: bpaf gives %s, expected %s" % (c["kind"], c["grammar"], c["argv"], c["env"], c.get("native"), c["expected"])
            fk = c["extra"].get("finding_key") if isinstance(c.get("extra"), dict) else None
            if c.get("reproduced"):
                out.violation(fk or key, what, c)
            else:
                out.inconc("NONREPRO %s: predicted %s native %s" % (key, c["predicted"], c.get("native")))
    enc_fns = sorted(k for k in fnh)
    cov = {
        "evaluations": stats["queries"],
        "distinct_nontrivial": nontrivial,
        "rule": "one case = one feasible path of run_subparser over a symbolic item vector (path condition non-empty => non-trivial); every path is closed by solver queries against the oracle",
        "samples": samples,
        "states": max(stats["paths"], 1),
        "transitions": max(stats["decisions"], 1),
        "traces_validated_against_impl": agree,
        "exhaustive": not out.inconclusive,
        "paths": stats["paths"],
        "queries": {"total": stats["queries"], "sat": stats["sat"], "unsat": stats["unsat"], "unknown": stats["unknown"]},
        "solver_time_s": stats["solver_s"],
        "mir_statements_executed": stats["steps"],
        "outcome_classes": classes,
        "oracle_leaves": sum(r.get("spec_leaves", 0) for r in results),
        "translator_validation": {"cases": validated, "agree": agree},
        "bounds": bounds,
        "grammars": sorted(set(j["grammar"] for j in jobs)),
        "jobs": len(jobs),
        "functions_encoded": enc_fns,
        "functions_encoded_count": len(enc_fns),
        "models_used": models,
        "cuts": tok.CUTS,
        "repo_src_hash": build.get("repo_hash"),
        "mir_sources": {fs: {"bpaf_mir": os.path.basename(e["bpaf_mir"])} for fs, e in build["sets"].items()},
    }
    assumptions = list(oracle.assumptions) + list(extra_assumptions) + [
        "token layer: the item vector is the tokenizer's image of some argv (wf_tokens); the tokenizer itself is decided by C02's checks",
        "std library calls are replaced by the semantic models listed in coverage.models_used; a callee without MIR or model aborts the run as inconclusive",
        "typed values are u32; FromStr is an uninterpreted validity predicate",
    ]
    return {"tier": tier, "seed": seed, "level": "model_checking", "coverage": cov, "assumptions": assumptions}


import os  # noqa: E402
