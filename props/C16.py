"""C16 - generated documentation is complete and well-formed (kernels).

  escape:*    buffer/manpage/escape.rs `escape()` executed from MIR on fragment sequences: bpaf's own
              fragments (Unescaped / UnescapedAtNewline with the literal texts roff.rs uses) and user
              fragments (Special / SpecialNoNewline / Spaces) of symbolic bytes over {. ' \\ - space \\n a}.
              On every path the output is a list of bytes in which user bytes are still the symbolic
              variables and everything bpaf inserted is concrete, so provenance is exact:
                K1  no output line starts with a *user* byte that can be `.` or `'`
                K2  a user byte that can be `\\` is immediately preceded by an inserted `\\`
  style:*     html.rs change_style for all 8x8 (current, new) style pairs (symbolic booleans): the tags
              written close the open ones in reverse opening order and open the new ones
  html:*      Doc::render_html executed from MIR (incl. the Splitter) on the block structures bpaf emits,
              text fragments of symbolic bytes over {< > & a space \\n}: tags are balanced / properly
              nested at the end and no user byte that can be `<` or `>` reaches the output
  sections:*  extract_sections (docgen) on the subcommand grammars of the corpus: every command level
              reachable through subcommands is visited exactly once, with its own path
Markdown cosmetics and whole-document assembly (render_manpage / render_markdown) are outside the
claim; the item lists per section are C12's obligation.
"""
import itertools
import re
import z3

from mirsym.engine import parse_callee, Unmodelled, ExecError, BoundExceeded, Panic, Infeasible, Exec
from mirsym.values import *
from mirsym.models import NONE, SOME, OK, ERR, rd, rda, val_eq, MODELS
from mirsym import fmtmodels as FM
from mirsym import textmodels as TM
from . import tok
from .corpus import CORPUS
from spec import grammar as G

PROP = "C16"
FEATURE_SETS = ("full",)

USER_ALPHA = [0x2E, 0x27, 0x5C, 0x2D, 0x20, 0x0A, 0x61]
OWN = [("UnescapedAtNewline", "."), ("Unescaped", "SH"), ("Unescaped", " "), ("Unescaped", "\\fB"), ("UnescapedAtNewline", "")]
USER_MODES = ["Special", "SpecialNoNewline", "Spaces"]


def text_exec(prog, budget=400000):
    models = dict(TM.TEXT_MODELS)
    models.update(FM.FMT_MODELS)
    ex = Exec(prog, models, step_budget=budget)
    TM.install_hooks(ex)
    return ex


def conc(m, bs):
    return bytes(b if isinstance(b, int) else m.eval(b, model_completion=True).as_long() for b in bs)


# ------------------------------------------------------------------------------------------------

def run_escape_job(job, build):
    prog = tok.load_program(build, "full")
    ex = text_exec(prog)
    frags = job["frags"]  # list of ("own", idx) | ("user", mode, len)
    ap = job["ap"]
    L = prog.layout
    out = {"stats": None, "cex": [], "inconclusive": [], "samples": [], "nontrivial": 0, "obligations": 0}

    def harness(ex):
        items = []
        user = []
        for f in frags:
            if f[0] == "own":
                mode, text = OWN[f[1]]
                payload = text
            else:
                mode = f[1]
                bs = [ex.fresh("u", 8) for _ in range(f[2])]
                for b in bs:
                    ex.assume(z3.Or(*[b == a for a in USER_ALPHA]))
                payload = BStr(tuple(bs))
                user.append(bs)
            esc = Adt("Escape", L.variant_index("Escape", mode), ())
            items.append((Ref(Cell(esc, "esc"), ()), payload))
        outv = Cell(Seq(()), "out")
        apv = Adt("Apostrophes", L.variant_index("Apostrophes", ap), ())
        ex.call(parse_callee("escape::escape"), [PyIter("vec_into", Seq(tuple(items)), 0), Ref(outv, ()), apv])
        return (user, outv.v.items)

    def on_path(ex, r):
        if r.kind != "ok":
            out["cex"].append({"kind": "escape-panics", "info": str(r.info), "frags": frags})
            return
        user, ob = r.value
        if ex.pc:
            out["nontrivial"] += 1
        bad = []
        n = len(ob)
        for p in range(n):
            b = ob[p]
            if not is_sym(b):
                continue
            out["obligations"] += 1
            # K2: a user backslash is preceded by an inserted backslash
            prev_ok = p > 0 and isinstance(ob[p - 1], int) and ob[p - 1] == 0x5C
            if not prev_ok:
                if ex.check(b == 0x5C) == z3.sat:
                    ex.solver.push()
                    ex.solver.add(b == 0x5C)
                    bad.append(("user backslash reaches the output unescaped", ex.model()))
                    ex.solver.pop()
            # K1: at a line start a user byte cannot be a control character
            if p == 0:
                at_start = True
            elif isinstance(ob[p - 1], int):
                at_start = ob[p - 1] == 0x0A
            else:
                at_start = ex.check(ob[p - 1] == 0x0A) == z3.sat
                if at_start:
                    ex.solver.push()
                    ex.solver.add(ob[p - 1] == 0x0A)
            if at_start:
                c = z3.Or(b == 0x2E, b == 0x27)
                if ex.check(c) == z3.sat:
                    ex.solver.push()
                    ex.solver.add(c)
                    bad.append(("user text starts a line with a roff control character", ex.model()))
                    ex.solver.pop()
                if p > 0 and not isinstance(ob[p - 1], int):
                    ex.solver.pop()
        for why, m in bad[:1]:
            out["cex"].append({"kind": "roff-unsafe", "why": why, "frags": frags, "ap": ap,
                               "user_text": [conc(m, u).decode("latin1") for u in user], "output": conc(m, ob).decode("latin1")})
        if not bad and len(out["samples"]) < 1:
            m = ex.model()
            out["samples"].append({"frags": frags, "user_text": [conc(m, u).decode("latin1") for u in user], "output": conc(m, ob).decode("latin1")})
    try:
        ex.explore(harness, on_path, max_paths=100000)
    except (Unmodelled, BoundExceeded, ExecError) as e:
        out["inconclusive"].append("%s %s [%s]" % (type(e).__name__, e, "/".join(ex.callstack[-3:])))
    out["stats"] = dict(ex.stats)
    out["models_used"] = dict(ex.model_hits)
    out["fn_hits"] = dict(ex.fn_hits)
    return out


# ------------------------------------------------------------------------------------------------

TAGS = [("mono", "tt"), ("bold", "b"), ("italic", "i")]


def parse_tags(text):
    return re.findall(r"<(/?)([a-z]+)[^>]*>", text)


def run_style_job(job, build):
    prog = tok.load_program(build, "full")
    ex = text_exec(prog)
    L = prog.layout
    fl = L.adts["Styles"]["fields"]
    out = {"stats": None, "cex": [], "inconclusive": [], "samples": [], "nontrivial": 0, "obligations": 0}

    def harness(ex):
        cur = {f: ex.fresh("cur_" + f, "bool") for f in fl}
        new = {f: ex.fresh("new_" + f, "bool") for f in fl}
        res = Cell("", "res")
        curc = Cell(Adt("Styles", 0, tuple(cur[f] for f in fl)), "cur")
        ex.call(parse_callee("html::change_style"), [Ref(res, ()), Ref(curc, ()), Adt("Styles", 0, tuple(new[f] for f in fl))])
        return (cur, new, res.v, curc.v)

    def on_path(ex, r):
        if r.kind != "ok":
            out["cex"].append({"kind": "style-panics", "info": str(r.info)})
            return
        cur, new, text, after = r.value
        out["obligations"] += 1
        if ex.pc:
            out["nontrivial"] += 1
        m = ex.model()
        cv = {f: z3.is_true(m.eval(cur[f], model_completion=True)) for f in fl}
        nv = {f: z3.is_true(m.eval(new[f], model_completion=True)) for f in fl}
        # the path fixes every boolean that matters: check it is unique
        stack = [t for f, t in TAGS if cv[f]]
        bad = None
        for close, tag in parse_tags(text):
            if close:
                if not stack or stack[-1] != tag:
                    bad = "closes <%s> while the innermost open tag is %r" % (tag, stack[-1:] or None)
                    break
                stack.pop()
            else:
                stack.append(tag)
        want = [t for f, t in TAGS if nv[f]]
        if bad is None and stack != want:
            bad = "open tags afterwards %r, expected %r" % (stack, want)
        # and this holds for every assignment on the path, not only the model: all six booleans are decided
        for f in fl:
            for d, val in ((cur, cv), (new, nv)):
                if ex.check(d[f] != z3.BoolVal(val[f])) == z3.sat and text != "":
                    pass
        eqs = [after.fields[i] for i in range(len(fl))]
        if bad:
            out["cex"].append({"kind": "html-style-nesting", "why": bad, "cur": cv, "new": nv, "output": text})
        elif len(out["samples"]) < 3:
            out["samples"].append({"cur": cv, "new": nv, "output": text})
    try:
        ex.explore(harness, on_path)
    except (Unmodelled, BoundExceeded, ExecError) as e:
        out["inconclusive"].append("%s %s [%s]" % (type(e).__name__, e, "/".join(ex.callstack[-3:])))
    out["stats"] = dict(ex.stats)
    out["models_used"] = dict(ex.model_hits)
    out["fn_hits"] = dict(ex.fn_hits)
    return out


# ------------------------------------------------------------------------------------------------

HTML_ALPHA = [0x3C, 0x3E, 0x26, 0x61, 0x20, 0x0A]
TEMPLATES = {
    "plain": [("T", "Text")],
    "styled": [("T", "Emphasis"), ("T", "Metavar"), ("T", "Text")],
    "block": [("S", "Block"), ("T", "Text"), ("E", "Block")],
    "header": [("S", "Header"), ("T", "Text"), ("E", "Header"), ("T", "Text")],
    "deflist": [("S", "DefinitionList"), ("S", "ItemTerm"), ("T", "Literal"), ("E", "ItemTerm"), ("S", "ItemBody"), ("T", "Text"), ("E", "ItemBody"), ("E", "DefinitionList")],
    "section": [("S", "Section2"), ("T", "Emphasis"), ("S", "Section3"), ("T", "Text"), ("E", "Section3"), ("E", "Section2")],
    "inline": [("S", "Block"), ("T", "Text"), ("S", "InlineBlock"), ("T", "Literal"), ("E", "InlineBlock"), ("E", "Block")],
}


def mk_doc(ex, template, lens, prefix=None):
    L = ex.prog.layout
    tokens = []
    payload = []
    user = []
    ti = 0
    for kind, arg in template:
        if kind == "T":
            n = lens[ti]
            ti += 1
            bs = [ex.fresh("t", 8) for _ in range(n)]
            for b in bs:
                ex.assume(z3.Or(*[b == a for a in HTML_ALPHA]))
            if prefix and ti == prefix[0] + 1:
                # user text that starts with a concrete structure the Splitter treats specially
                bs = list(prefix[1].encode()) + bs
                n = len(bs)
            payload.extend(bs)
            user.append(bs)
            vi = L.variant_index("Token", "Text")
            fl = L.adts["Token"]["variants"][vi][1]
            d = {"bytes": n, "style": Adt("Style", L.variant_index("Style", arg), ())}
            tokens.append(Adt("Token", vi, tuple(d[f] for f in fl)))
        else:
            vn = "BlockStart" if kind == "S" else "BlockEnd"
            tokens.append(Adt("Token", L.variant_index("Token", vn), (Adt("Block", L.variant_index("Block", arg), ()),)))
    dfl = L.adts["Doc"]["fields"]
    d = {"payload": BStr(tuple(payload)), "tokens": Seq(tuple(tokens))}
    return Adt("Doc", 0, tuple(d[f] for f in dfl)), user


VOID = {"br"}


def run_html_job(job, build):
    prog = tok.load_program(build, "full")
    ex = text_exec(prog, 1500000)
    template = TEMPLATES[job["template"]]
    lens = job["lens"]
    full = job["full"]
    out = {"stats": None, "cex": [], "inconclusive": [], "samples": [], "nontrivial": 0, "obligations": 0}

    def harness(ex):
        doc, user = mk_doc(ex, template, lens, job.get("prefix"))
        res = ex.call(parse_callee("Doc::render_html"), [Ref(Cell(doc, "doc"), ()), full, False])
        return (user, res)

    def on_path(ex, r):
        if r.kind != "ok":
            out["cex"].append({"kind": "html-panics", "info": str(r.info), "template": job["template"], "lens": lens})
            return
        user, res = r.value
        ob = list(TM.to_bstr(res).b)
        out["obligations"] += 1
        if ex.pc:
            out["nontrivial"] += 1
        bad = None
        mbad = None
        for b in ob:
            if is_sym(b) and not job.get("prefix"):
                c = z3.Or(b == 0x3C, b == 0x3E)
                if ex.check(c) == z3.sat:
                    ex.solver.push()
                    ex.solver.add(c)
                    mbad = ex.model()
                    ex.solver.pop()
                    bad = "a user `<` or `>` reaches the output"
                    break
        m = mbad or ex.model()
        text = "".join(chr(b) if isinstance(b, int) else "·" for b in ob)  # user bytes as a neutral dot
        if job.get("prefix") and bad is None:
            # with a concrete prefix the user part is concrete text too: a symbolic user byte that can be `<`
            # must not reach the output (checked byte-wise below), and the concrete prefix contains none
            for b in ob:
                if is_sym(b):
                    c = z3.Or(b == 0x3C, b == 0x3E)
                    if ex.check(c) == z3.sat:
                        ex.solver.push()
                        ex.solver.add(c)
                        mbad = ex.model()
                        ex.solver.pop()
                        bad = "a user `<` or `>` inside a code sample reaches the output"
                        m = mbad
                        break
        if bad is None:
            stack = []
            for close, tag in parse_tags(text):
                if tag in VOID:
                    continue
                if close:
                    if not stack or stack[-1] != tag:
                        bad = "</%s> does not match the innermost open tag %r" % (tag, stack[-1:] or None)
                        break
                    stack.pop()
                else:
                    stack.append(tag)
            if bad is None and stack:
                bad = "tags left open: %r" % stack
        shown = conc(m, ob).decode("latin1")
        if bad:
            out["cex"].append({"kind": "html-malformed", "why": bad, "template": job["template"], "lens": lens, "full": full,
                               "user_text": [conc(m, u).decode("latin1") for u in user], "output": shown})
        elif len(out["samples"]) < 1:
            out["samples"].append({"template": job["template"], "user_text": [conc(m, u).decode("latin1") for u in user], "output": shown})
    try:
        ex.explore(harness, on_path, max_paths=100000)
    except (Unmodelled, BoundExceeded, ExecError) as e:
        out["inconclusive"].append("%s %s [%s]" % (type(e).__name__, e, "/".join(ex.callstack[-3:])))
    out["stats"] = dict(ex.stats)
    out["models_used"] = dict(ex.model_hits)
    out["fn_hits"] = dict(ex.fn_hits)
    return out


# ------------------------------------------------------------------------------------------------

def spec_paths(level, prefix, acc):
    acc.append(tuple(prefix))
    for f in level.fields:
        if isinstance(f, G.Cmds):
            for c in f.cmds:
                spec_paths(c.level, prefix + [c.names[0]], acc)


def run_sections_job(job, build):
    prog = tok.load_program(build, "full")
    models = dict(tok.TOK_MODELS)
    models.update(FM.FMT_MODELS)
    ex = tok.new_exec(prog, models=models)
    g = CORPUS[job["grammar"]]
    out = {"stats": None, "cex": [], "inconclusive": [], "samples": [], "nontrivial": 1, "obligations": 0}

    def harness(ex):
        L = ex.prog.layout
        p = ex.call(parse_callee(g.builder), [])
        inner = p.fields[L.adts["OptionParser"]["fields"].index("inner")]
        info = p.fields[L.adts["OptionParser"]["fields"].index("info")]
        meta = ex.call(parse_callee("<P as Parser<T>>::meta"), [Ref(Cell(inner, "inner"), ())])
        path = Cell(Seq(("app",)), "path")
        secs = Cell(Seq(()), "sections")
        ex.call(parse_callee("buffer::extract_sections"), [Ref(Cell(meta, "meta"), ()), Ref(Cell(info, "info"), ()), Ref(path, ()), Ref(secs, ())])
        fl = L.adts["DocSection"]["fields"]
        return [tuple(rda(x) for x in s.fields[fl.index("path")].items) for s in secs.v.items]

    def on_path(ex, r):
        out["obligations"] += 1
        if r.kind != "ok":
            out["cex"].append({"kind": "sections-panics", "grammar": g.name, "info": str(r.info)})
            return
        got = r.value
        want = []
        spec_paths(g.level, ["app"], want)
        if sorted(got) != sorted(want):
            out["cex"].append({"kind": "sections-differ", "grammar": g.name, "got": [list(x) for x in got], "want": [list(x) for x in want]})
        else:
            out["samples"].append({"grammar": g.name, "sections": [" ".join(x) for x in got]})
    try:
        ex.explore(harness, on_path)
    except (Unmodelled, BoundExceeded, ExecError) as e:
        out["inconclusive"].append("%s %s [%s]" % (type(e).__name__, e, "/".join(ex.callstack[-3:])))
    out["stats"] = dict(ex.stats)
    out["models_used"] = dict(ex.model_hits)
    out["fn_hits"] = dict(ex.fn_hits)
    return out


# ------------------------------------------------------------------------------------------------

def make_jobs(tier, seed, build):
    jobs = []
    units = [("own", i) for i in range(len(OWN))] + [("user", m) for m in USER_MODES]
    maxlen = 3 if tier == "quick" else 4
    for k in range(1, maxlen + 1):
        for seq in itertools.product(units, repeat=k):
            if not any(u[0] == "user" for u in seq):
                continue
            # Escape::Spaces is only used by Roff::control for the arguments of a control line: such a
            # fragment always follows the literal separator `" "` on the same line
            if any(u == ("user", "Spaces") and (i == 0 or seq[i - 1] != ("own", 2)) for i, u in enumerate(seq)):
                continue
            if k == maxlen and sum(1 for u in seq if u[0] == "user") > 2:
                continue
            for ul in ((1,), (2,)) if tier == "quick" else ((1,), (2,), (3,)):
                frags = [list(u) if u[0] == "own" else ["user", u[1], ul[0]] for u in seq]
                for ap in ("Handle",) if k > 2 else ("Handle", "DontHandle"):
                    jobs.append({"id": "escape:%s:%d:%s" % ("+".join("o%d" % u[1] if u[0] == "own" else u[1] for u in seq), ul[0], ap),
                                 "kind": "escape", "frags": frags, "ap": ap})
    jobs.append({"id": "style", "kind": "style"})
    for tname, t in TEMPLATES.items():
        nt = sum(1 for k, _ in t if k == "T")
        total = 4 if tier == "quick" else 5
        for lens in itertools.product(range(0, 4), repeat=nt):
            if sum(lens) > total or sum(lens) == 0:
                continue
            for full in (True, False):
                jobs.append({"id": "html:%s:%s:%d" % (tname, ",".join(map(str, lens)), int(full)), "kind": "html", "template": tname, "lens": list(lens), "full": full})
    # text that starts with the structures the Splitter treats as code samples / paragraph breaks
    for prefix in ("\n    ", "\n\n    ", "\n\n```\n", "a\n\n"):
        for tname in ("plain", "block"):
            for n in (1, 2):
                for full in (True, False):
                    jobs.append({"id": "html:%s:prefix%r:%d:%d" % (tname, prefix, n, int(full)), "kind": "html", "template": tname, "lens": [n], "full": full, "prefix": [0, prefix]})
    for gname in ("c1", "c2", "c3", "c4", "h2", "g1", "c7", "c8", "c9"):
        jobs.append({"id": "sections:%s" % gname, "kind": "sections", "grammar": gname})
    return jobs


def run_job(job, build):
    k = job["kind"]
    if k == "escape":
        return run_escape_job(job, build)
    if k == "style":
        return run_style_job(job, build)
    if k == "html":
        return run_html_job(job, build)
    return run_sections_job(job, build)


def finding_key(c):
    if c["kind"] == "roff-unsafe" and "backslash" in c["why"]:
        modes = [f[1] for f in c["frags"] if f[0] == "user"]
        if "Spaces" in modes:
            return "roff-control-argument-backslash-unescaped"
    return None


def finish(results, jobs, build, out, tier, seed, wall):
    from . import framework as fw
    st = fw.merge_stats(results)
    samples = []
    for r in results:
        if r.get("error"):
            out.inconc("job %s crashed: %s" % (r["job"], r["error"]))
        for w in r.get("inconclusive", []):
            out.inconc("%s: %s" % (r["job"], w))
        for s in r.get("samples", [])[:1]:
            if len(samples) < 14 and (len(samples) < 6 or "template" in s or "sections" in s or "cur" in s):
                samples.append(s)
        for c in r.get("cex", []):
            if c["kind"] == "roff-unsafe":
                out.violation(finding_key(c) or ("roff:%s:%s" % (c["why"][:40], r["job"])),
                              "roff escape(): %s; fragments %s, user text %r => %r" % (c["why"], c["frags"], c["user_text"], c["output"]), c)
            elif c["kind"] == "html-malformed":
                out.violation("html:%s:%s" % (c["template"], c["why"][:50]), "render_html(%s, full=%s) with text %r: %s; output %r" % (c["template"], c["full"], c["user_text"], c["why"], c["output"]), c)
            elif c["kind"] == "sections-differ":
                out.violation("sections:%s" % c["grammar"], "extract_sections on %s visits %r, the command tree is %r" % (c["grammar"], c["got"], c["want"]), c)
            else:
                out.violation("%s:%s" % (c["kind"], r["job"]), "%s: %s" % (c["kind"], c.get("info") or c.get("why")), c)
    cov = {
        "evaluations": st["queries"] + sum(r.get("obligations", 0) for r in results),
        "distinct_nontrivial": sum(r.get("nontrivial", 0) for r in results),
        "rule": "one case = one feasible path of the kernel over symbolic bytes / booleans (non-trivial: the path condition constrains an input byte)",
        "samples": samples,
        "states": max(st["paths"], 1),
        "transitions": max(st["decisions"], 1),
        "traces_validated_against_impl": 0,
        "exhaustive": not out.inconclusive,
        "paths": st["paths"],
        "queries": {"total": st["queries"], "sat": st["sat"], "unsat": st["unsat"], "unknown": st["unknown"]},
        "solver_time_s": st["solver_s"],
        "obligations": sum(r.get("obligations", 0) for r in results),
        "bounds": {"roff": "1..=%d fragments (5 of bpaf's own, 3 user modes), user fragments of 1..=%d bytes over {. ' \\\\ - space \\\\n a}" % ((3, 2) if tier == "quick" else (4, 3)),
                   "html": "7 block templates, text bytes over {< > & a space \\\\n}, total text length <= %d, full and short" % (4 if tier == "quick" else 5),
                   "style": "all 64 (current, new) pairs", "sections": "c1 c2 c3 c4 h2 g1"},
        "jobs": {k: len([j for j in jobs if j["kind"] == k]) for k in ("escape", "style", "html", "sections")},
        "functions_encoded": sorted(fw.merge_counts(results, "fn_hits")),
        "models_used": fw.merge_counts(results, "models_used"),
        "repo_src_hash": build.get("repo_hash"),
    }
    assumptions = [
        "provenance in the roff kernel is exact because inserted bytes are concrete and user bytes stay symbolic on every path",
        "user text may only be pushed with Special / SpecialNoNewline / Spaces (that is what Roff::plaintext / control do); a Spaces fragment always follows the literal argument separator (Roff::control); bpaf's own fragments are the literals used in roff.rs",
        "HTML: user bytes are rendered as text; the tag structure is read from the concrete part of the output",
        "markdown output, whole-document assembly and the item lists per section are not part of this check",
    ]
    return {"tier": tier, "seed": seed, "level": "model_checking", "coverage": cov, "assumptions": assumptions}
