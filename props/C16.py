"""C16 - generated documentation is complete and well-formed (kernels).

  escape:*    buffer/manpage/escape.rs `escape()` executed from MIR on fragment sequences: bpaf's own
              fragments (Unescaped / UnescapedAtNewline with the literal texts roff.rs uses) and user
              fragments (Special / SpecialNoNewline / Spaces) of symbolic bytes over {. ' \\ - space \\n a}.
              On every path the output is a list of bytes in which user bytes are still the symbolic
              variables and everything bpaf inserted is concrete, so provenance is exact:
                K1  no output line starts with a *user* byte that can be `.` or `'`
                K2  a user byte that can be `\\` is immediately preceded by an inserted `\\`
  roff:*      the Roff builder API (control / control0 / plaintext / text / roff_linebreak / strip_newlines)
              followed by Roff::render, from MIR, user strings of symbolic bytes over the same alphabet plus
              `"`: K1 and K2 on the rendered text - here the escaping mode a user string travels in is chosen
              by the executed code, not assumed
  udoc:*      whole documents with a symbolic user text: grammar `ut` takes every free text (item help, group
              help, descr, header, footer; date / vendor / title of render_manpage) from a harness function that
              is replaced by symbolic bytes, one slot at a time; render_manpage / collect_html + render_html from
              MIR; K1 / K2 or the html obligations on the rendered document; one document per path and every
              counterexample are compared byte for byte with the native build's
  style:*     html.rs change_style for all 8x8 (current, new) style pairs (symbolic booleans): the tags
              written close the open ones in reverse opening order and open the new ones
  html:*      Doc::render_html executed from MIR (incl. the Splitter) on the block structures bpaf emits,
              text fragments of symbolic bytes over {< > & a space \\n}: tags are balanced / properly
              nested at the end and no user byte that can be `<` or `>` reaches the output
  sections:*  extract_sections (docgen) on the subcommand grammars of the corpus: every command level
              reachable through subcommands is visited exactly once, with its own path
  doc:*       whole documents: collect_html + Doc::render_markdown / render_html and render_manpage executed
              from MIR on corpus grammars; every command level has exactly one section, each section
              mentions the visible named items and commands of its level, hidden items nowhere; the text
              must equal the native build's byte for byte
Markdown cosmetics are outside the claim.
"""
import itertools
import re
import z3

from mirsym.engine import parse_callee, Unmodelled, ExecError, BoundExceeded, Panic, Infeasible, Exec
from mirsym.values import *
from mirsym.models import NONE, SOME, OK, ERR, rd, rda, val_eq, MODELS
from mirsym import fmtmodels as FM
from mirsym import textmodels as TM
from . import tok
from .corpus import CORPUS
from spec import grammar as G

PROP = "C16"
FEATURE_SETS = ("full",)

USER_ALPHA = [0x2E, 0x27, 0x5C, 0x2D, 0x20, 0x0A, 0x61]
OWN = [("UnescapedAtNewline", "."), ("Unescaped", "SH"), ("Unescaped", " "), ("Unescaped", "\\fB"), ("UnescapedAtNewline", "")]
USER_MODES = ["Special", "SpecialNoNewline", "Spaces"]


def text_exec(prog, budget=400000):
    models = dict(TM.TEXT_MODELS)
    models.update(FM.FMT_MODELS)
    ex = Exec(prog, models, step_budget=budget)
    TM.install_hooks(ex)
    return ex


def conc(m, bs):
    return bytes(b if isinstance(b, int) else m.eval(b, model_completion=True).as_long() for b in bs)


# ------------------------------------------------------------------------------------------------

def run_escape_job(job, build):
    prog = tok.load_program(build, "full")
    ex = text_exec(prog)
    frags = job["frags"]  # list of ("own", idx) | ("user", mode, len)
    ap = job["ap"]
    L = prog.layout
    out = {"stats": None, "cex": [], "inconclusive": [], "samples": [], "nontrivial": 0, "obligations": 0}

    def harness(ex):
        items = []
        user = []
        for f in frags:
            if f[0] == "own":
                mode, text = OWN[f[1]]
                payload = text
            else:
                mode = f[1]
                bs = [ex.fresh("u", 8) for _ in range(f[2])]
                for b in bs:
                    ex.assume(z3.Or(*[b == a for a in USER_ALPHA]))
                payload = BStr(tuple(bs))
                user.append(bs)
            esc = Adt("Escape", L.variant_index("Escape", mode), ())
            items.append((Ref(Cell(esc, "esc"), ()), payload))
        outv = Cell(Seq(()), "out")
        apv = Adt("Apostrophes", L.variant_index("Apostrophes", ap), ())
        ex.call(parse_callee("escape::escape"), [PyIter("vec_into", Seq(tuple(items)), 0), Ref(outv, ()), apv])
        return (user, outv.v.items)

    def on_path(ex, r):
        if r.kind != "ok":
            out["cex"].append({"kind": "escape-panics", "info": str(r.info), "frags": frags})
            return
        user, ob = r.value
        if ex.pc:
            out["nontrivial"] += 1
        bad = []
        n = len(ob)
        for p in range(n):
            b = ob[p]
            if not is_sym(b):
                continue
            out["obligations"] += 1
            # K2: a user backslash is preceded by an inserted backslash
            prev_ok = p > 0 and isinstance(ob[p - 1], int) and ob[p - 1] == 0x5C
            if not prev_ok:
                if ex.check(b == 0x5C) == z3.sat:
                    ex.solver.push()
                    ex.solver.add(b == 0x5C)
                    bad.append(("user backslash reaches the output unescaped", ex.model()))
                    ex.solver.pop()
            # K1: at a line start a user byte cannot be a control character
            if p == 0:
                at_start = True
            elif isinstance(ob[p - 1], int):
                at_start = ob[p - 1] == 0x0A
            else:
                at_start = ex.check(ob[p - 1] == 0x0A) == z3.sat
                if at_start:
                    ex.solver.push()
                    ex.solver.add(ob[p - 1] == 0x0A)
            if at_start:
                c = z3.Or(b == 0x2E, b == 0x27)
                if ex.check(c) == z3.sat:
                    ex.solver.push()
                    ex.solver.add(c)
                    bad.append(("user text starts a line with a roff control character", ex.model()))
                    ex.solver.pop()
                if p > 0 and not isinstance(ob[p - 1], int):
                    ex.solver.pop()
        for why, m in bad[:1]:
            out["cex"].append({"kind": "roff-unsafe", "why": why, "frags": frags, "ap": ap,
                               "user_text": [conc(m, u).decode("latin1") for u in user], "output": conc(m, ob).decode("latin1")})
        if not bad and len(out["samples"]) < 1:
            m = ex.model()
            out["samples"].append({"frags": frags, "user_text": [conc(m, u).decode("latin1") for u in user], "output": conc(m, ob).decode("latin1")})
    try:
        ex.explore(harness, on_path, max_paths=100000)
    except (Unmodelled, BoundExceeded, ExecError) as e:
        out["inconclusive"].append("%s %s [%s]" % (type(e).__name__, e, "/".join(ex.callstack[-3:])))
    out["stats"] = dict(ex.stats)
    out["models_used"] = dict(ex.model_hits)
    out["fn_hits"] = dict(ex.fn_hits)
    return out


ROFF_ALPHA = USER_ALPHA + [0x22]
ROFF_OPS = {
    # name: list of Roff API calls; user strings are given by their length in symbolic bytes
    "SS1": [("control", "SS", [None])],
    "TH3": [("control", "TH", [None, 0, None])],
    "SS1+plain": [("control", "SS", [None]), ("plaintext", None)],
    "plain": [("plaintext", None)],
    "plain+SS1": [("plaintext", None), ("control", "SS", [None])],
    "strip+plain": [("strip", True), ("plaintext", None)],
    "text2": [("text", [("Bold", None), ("Roman", None)])],
    "TP+text+plain": [("control0", "TP"), ("text", [("Bold", None)]), ("linebreak",), ("plaintext", None)],
    "plain+text": [("plaintext", None), ("text", [("Italic", None)])],
}


def run_roff_job(job, build):
    """the Roff builder API (control / control0 / plaintext / text / roff_linebreak / strip_newlines) followed by
    Roff::render, all from MIR, user strings of symbolic bytes: whatever escaping mode the builder picks for a
    user string is part of what is executed (no assumption about which modes carry user text)"""
    prog = tok.load_program(build, "full")
    ex = text_exec(prog, budget=1500000)
    ops = ROFF_OPS[job["ops"]]
    n = job["len"]
    ap = job["ap"]
    L = prog.layout
    out = {"stats": None, "cex": [], "inconclusive": [], "samples": [], "nontrivial": 0, "obligations": 0}

    def harness(ex):
        user = []

        def ustr(k):
            if k == 0:
                return ""
            bs = [ex.fresh("u", 8) for _ in range(n if k is None else k)]
            for b in bs:
                ex.assume(z3.Or(*[b == a for a in ROFF_ALPHA]))
            user.append(bs)
            return BStr(tuple(bs))
        roff = Cell(ex.call(parse_callee("Roff::new"), []), "roff")
        me = Ref(roff, ())
        for op in ops:
            if op[0] == "control":
                args = tuple(ustr(k) for k in op[2])
                ex.call(parse_callee("Roff::control"), [me, op[1], PyIter("vec_into", Seq(args), 0)])
            elif op[0] == "control0":
                ex.call(parse_callee("Roff::control0"), [me, op[1]])
            elif op[0] == "plaintext":
                ex.call(parse_callee("Roff::plaintext"), [me, ustr(op[1])])
            elif op[0] == "strip":
                ex.call(parse_callee("Roff::strip_newlines"), [me, op[1]])
            elif op[0] == "linebreak":
                ex.call(parse_callee("Roff::roff_linebreak"), [me])
            elif op[0] == "text":
                parts = tuple((Adt("Font", L.variant_index("Font", f), ()), ustr(k)) for f, k in op[1])
                ex.call(parse_callee("Roff::text"), [me, Ref(Cell(Seq(parts), "parts"), ())])
        apv = Adt("Apostrophes", L.variant_index("Apostrophes", ap), ())
        res = ex.call(parse_callee("Roff::render"), [me, apv])
        return (user, res)

    def on_path(ex, r):
        if r.kind != "ok":
            out["cex"].append({"kind": "roff-panics", "info": str(r.info), "ops": job["ops"]})
            return
        user, res = r.value
        v = rda(res)
        ob = list(v.b) if type(v) is BStr else list(v.encode())
        if ex.pc:
            out["nontrivial"] += 1
        bad = roff_obligations(ex, ob, out)
        for why, m in bad[:1]:
            out["cex"].append({"kind": "roff-unsafe", "why": why, "frags": [["api", job["ops"], n]], "ap": ap,
                               "user_text": [conc(m, u).decode("latin1") for u in user], "output": conc(m, ob).decode("latin1")})
        if not bad and len(out["samples"]) < 1:
            m = ex.model()
            out["samples"].append({"roff_api": job["ops"], "user_text": [conc(m, u).decode("latin1") for u in user], "output": conc(m, ob).decode("latin1")[-120:]})
    try:
        ex.explore(harness, on_path, max_paths=100000)
    except (Unmodelled, BoundExceeded, ExecError) as e:
        out["inconclusive"].append("%s %s [%s]" % (type(e).__name__, e, "/".join(getattr(e, "stack", None) or ex.callstack[-3:])))
    out["stats"] = dict(ex.stats)
    out["models_used"] = dict(ex.model_hits)
    out["fn_hits"] = dict(ex.fn_hits)
    return out


def roff_obligations(ex, ob, out):
    """K1 / K2 over an output in which user bytes are still symbolic variables"""
    bad = []
    n = len(ob)
    for p in range(n):
        b = ob[p]
        if not is_sym(b):
            continue
        out["obligations"] += 1
        prev_ok = p > 0 and isinstance(ob[p - 1], int) and ob[p - 1] == 0x5C
        if not prev_ok:
            if ex.check(b == 0x5C) == z3.sat:
                ex.solver.push()
                ex.solver.add(b == 0x5C)
                bad.append(("user backslash reaches the output unescaped", ex.model()))
                ex.solver.pop()
        pushed = False
        if p == 0:
            at_start = True
        elif isinstance(ob[p - 1], int):
            at_start = ob[p - 1] == 0x0A
        else:
            at_start = ex.check(ob[p - 1] == 0x0A) == z3.sat
            if at_start:
                ex.solver.push()
                ex.solver.add(ob[p - 1] == 0x0A)
                pushed = True
        if at_start:
            c = z3.Or(b == 0x2E, b == 0x27)
            if ex.check(c) == z3.sat:
                ex.solver.push()
                ex.solver.add(c)
                bad.append(("user text starts a line with a roff control character", ex.model()))
                ex.solver.pop()
        if pushed:
            ex.solver.pop()
    return bad


UDOC_SLOTS = {0: "item help", 1: "group_help", 2: "descr", 3: "header", 4: "footer", 5: "manpage date", 6: "manpage vendor", 7: "manpage title"}


def run_udoc_job(job, build):
    """whole documents with a *symbolic* user text: grammar `ut` takes every free text from user_text(i); slot
    `slot` is k symbolic bytes, the others are "a".  render_manpage / collect_html + render_html executed from MIR;
    the roff obligations K1 / K2 (manpage) or the html obligations (no user `<` `>`, balanced tags) are decided on
    the rendered document, where user bytes are still symbolic.  One document per path is compared with the
    native build's (same text through VERIF_TEXT<i>), and every counterexample is."""
    from . import C12
    from .framework import Replayer
    prog = tok.load_program(build, "full")
    models = C12.help_models()
    models.pop("Doc::to_completion", None)
    models.update(TM.TEXT_MODELS)
    models.update(FM.FMT_MODELS)
    fmt, slot, k = job["fmt"], job["slot"], job["len"]
    alpha = ROFF_ALPHA if fmt == "man" else HTML_ALPHA
    user = []

    def m_user_text(ex, c, args):
        i = args[0]
        if i != slot:
            return "a"
        bs = [ex.fresh("u", 8) for _ in range(k)]
        for b in bs:
            ex.assume(z3.Or(*[b == a for a in alpha]))
        user.append(bs)
        return BStr(tuple(bs))
    models["grammars::user_text"] = m_user_text
    models["user_text"] = m_user_text
    ex = tok.new_exec(prog, models=models, step_budget=8000000)
    TM.install_hooks(ex)
    ex.debug_repr = C12.stable_repr
    out = {"stats": None, "cex": [], "inconclusive": [], "samples": [], "nontrivial": 0, "obligations": 0, "validate": []}

    def harness(ex):
        L = ex.prog.layout
        del user[:]
        p = ex.call(parse_callee("vharness::grammars::ut"), [])
        if fmt == "man":
            sec = Adt("Section", L.variant_index("Section", "General"), ())
            extra = []
            for i in (5, 6, 7):
                extra.append(SOME(m_user_text(ex, None, [i])) if i == slot else NONE)
            return ex.call(parse_callee("OptionParser::render_manpage"), [Ref(Cell(p, "p"), ()), "app", sec] + extra)
        inner = p.fields[L.adts["OptionParser"]["fields"].index("inner")]
        info = p.fields[L.adts["OptionParser"]["fields"].index("info")]
        meta = ex.call(parse_callee("<P as Parser<T>>::meta"), [Ref(Cell(inner, "inner"), ())])
        doc = ex.call(parse_callee("buffer::html::collect_html"), ["app", Ref(Cell(meta, "meta"), ()), Ref(Cell(info, "info"), ())])
        return ex.call(parse_callee("Doc::render_html"), [Ref(Cell(doc, "doc"), ()), True, False])

    def on_path(ex, r):
        if r.kind != "ok":
            m = ex.model()
            out["cex"].append({"kind": "udoc-panics", "fmt": fmt, "slot": slot, "why": str(r.info), "user_text": [conc(m, u).decode("latin1") for u in user]})
            return
        ob = list(TM.to_bstr(r.value).b)
        if ex.pc:
            out["nontrivial"] += 1
        if fmt == "man":
            bad = roff_obligations(ex, ob, out)
        else:
            out["obligations"] += 1
            bad = []
            for b in ob:
                if is_sym(b):
                    c = z3.Or(b == 0x3C, b == 0x3E)
                    if ex.check(c) == z3.sat:
                        ex.solver.push()
                        ex.solver.add(c)
                        bad.append(("a user `<` or `>` reaches the output", ex.model()))
                        ex.solver.pop()
                        break
            if not bad:
                text = "".join(chr(b) if isinstance(b, int) else "\u00b7" for b in ob)
                stack = []
                why = None
                for close, tag in parse_tags(text):
                    if tag in VOID:
                        continue
                    if close:
                        if not stack or stack[-1] != tag:
                            why = "</%s> does not match the innermost open tag %r" % (tag, stack[-1:] or None)
                            break
                        stack.pop()
                    else:
                        stack.append(tag)
                if why is None and stack:
                    why = "tags left open: %r" % stack
                if why:
                    bad.append((why, ex.model()))
        for why, m in bad[:1]:
            out["cex"].append({"kind": "udoc-unsafe", "fmt": fmt, "slot": slot, "why": why, "user_text": [conc(m, u).decode("latin1") for u in user],
                               "output": conc(m, ob).decode("latin1")})
        if not bad:
            m = ex.model()
            if len(out["validate"]) < 6:
                out["validate"].append(([conc(m, u).decode("latin1") for u in user], conc(m, ob).decode("latin1")))
            if len(out["samples"]) < 1:
                out["samples"].append({"udoc": fmt, "slot": UDOC_SLOTS[slot], "user_text": [conc(m, u).decode("latin1") for u in user], "bytes": len(ob)})
    try:
        ex.explore(harness, on_path, max_paths=100000)
    except (Unmodelled, BoundExceeded, ExecError) as e:
        out["inconclusive"].append("%s %s [%s]" % (type(e).__name__, e, "/".join(getattr(e, "stack", None) or ex.callstack[-3:])))
    out["stats"] = dict(ex.stats)
    out["models_used"] = dict(ex.model_hits)
    out["fn_hits"] = dict(ex.fn_hits)
    # native comparison: the same user text through VERIF_TEXT<slot>
    import ast
    rp = Replayer(build["sets"]["full"]["replay"])

    def native(ut):
        (cls, pay), = rp.run([("doc:%s:ut" % fmt, [], {"VERIF_TEXT%d" % slot: ut[0]} if ut else {})])
        try:
            return ast.literal_eval(pay) if cls == "doc" else None
        except Exception:  # noqa: BLE001
            return None
    val = out.pop("validate")
    agree = 0
    for ut, text in val:
        if native(ut) == text:
            agree += 1
        else:
            out["inconclusive"].append("ENCODING-MISMATCH %s document of ut with %s = %r: MIR execution and the native build differ" % (fmt, UDOC_SLOTS[slot], ut))
    out["validated"] = len(val)
    out["validated_agree"] = agree
    for c in out["cex"]:
        if c["kind"] == "udoc-unsafe":
            c["reproduced"] = native(c["user_text"]) == c["output"]
    return out


# ------------------------------------------------------------------------------------------------

TAGS = [("mono", "tt"), ("bold", "b"), ("italic", "i")]


def parse_tags(text):
    return re.findall(r"<(/?)([a-z]+)[^>]*>", text)


def run_style_job(job, build):
    prog = tok.load_program(build, "full")
    ex = text_exec(prog)
    L = prog.layout
    fl = L.adts["Styles"]["fields"]
    out = {"stats": None, "cex": [], "inconclusive": [], "samples": [], "nontrivial": 0, "obligations": 0}

    def harness(ex):
        cur = {f: ex.fresh("cur_" + f, "bool") for f in fl}
        new = {f: ex.fresh("new_" + f, "bool") for f in fl}
        res = Cell("", "res")
        curc = Cell(Adt("Styles", 0, tuple(cur[f] for f in fl)), "cur")
        ex.call(parse_callee("html::change_style"), [Ref(res, ()), Ref(curc, ()), Adt("Styles", 0, tuple(new[f] for f in fl))])
        return (cur, new, res.v, curc.v)

    def on_path(ex, r):
        if r.kind != "ok":
            out["cex"].append({"kind": "style-panics", "info": str(r.info)})
            return
        cur, new, text, after = r.value
        out["obligations"] += 1
        if ex.pc:
            out["nontrivial"] += 1
        m = ex.model()
        cv = {f: z3.is_true(m.eval(cur[f], model_completion=True)) for f in fl}
        nv = {f: z3.is_true(m.eval(new[f], model_completion=True)) for f in fl}
        # the path fixes every boolean that matters: check it is unique
        stack = [t for f, t in TAGS if cv[f]]
        bad = None
        for close, tag in parse_tags(text):
            if close:
                if not stack or stack[-1] != tag:
                    bad = "closes <%s> while the innermost open tag is %r" % (tag, stack[-1:] or None)
                    break
                stack.pop()
            else:
                stack.append(tag)
        want = [t for f, t in TAGS if nv[f]]
        if bad is None and stack != want:
            bad = "open tags afterwards %r, expected %r" % (stack, want)
        # and this holds for every assignment on the path, not only the model: all six booleans are decided
        for f in fl:
            for d, val in ((cur, cv), (new, nv)):
                if ex.check(d[f] != z3.BoolVal(val[f])) == z3.sat and text != "":
                    pass
        eqs = [after.fields[i] for i in range(len(fl))]
        if bad:
            out["cex"].append({"kind": "html-style-nesting", "why": bad, "cur": cv, "new": nv, "output": text})
        elif len(out["samples"]) < 3:
            out["samples"].append({"cur": cv, "new": nv, "output": text})
    try:
        ex.explore(harness, on_path)
    except (Unmodelled, BoundExceeded, ExecError) as e:
        out["inconclusive"].append("%s %s [%s]" % (type(e).__name__, e, "/".join(ex.callstack[-3:])))
    out["stats"] = dict(ex.stats)
    out["models_used"] = dict(ex.model_hits)
    out["fn_hits"] = dict(ex.fn_hits)
    return out


# ------------------------------------------------------------------------------------------------

HTML_ALPHA = [0x3C, 0x3E, 0x26, 0x61, 0x20, 0x0A]
TEMPLATES = {
    "plain": [("T", "Text")],
    "styled": [("T", "Emphasis"), ("T", "Metavar"), ("T", "Text")],
    "block": [("S", "Block"), ("T", "Text"), ("E", "Block")],
    "header": [("S", "Header"), ("T", "Text"), ("E", "Header"), ("T", "Text")],
    "deflist": [("S", "DefinitionList"), ("S", "ItemTerm"), ("T", "Literal"), ("E", "ItemTerm"), ("S", "ItemBody"), ("T", "Text"), ("E", "ItemBody"), ("E", "DefinitionList")],
    "section": [("S", "Section2"), ("T", "Emphasis"), ("S", "Section3"), ("T", "Text"), ("E", "Section3"), ("E", "Section2")],
    "inline": [("S", "Block"), ("T", "Text"), ("S", "InlineBlock"), ("T", "Literal"), ("E", "InlineBlock"), ("E", "Block")],
}


def mk_doc(ex, template, lens, prefix=None):
    L = ex.prog.layout
    tokens = []
    payload = []
    user = []
    ti = 0
    for kind, arg in template:
        if kind == "T":
            n = lens[ti]
            ti += 1
            bs = [ex.fresh("t", 8) for _ in range(n)]
            for b in bs:
                ex.assume(z3.Or(*[b == a for a in HTML_ALPHA]))
            if prefix and ti == prefix[0] + 1:
                # user text that starts with a concrete structure the Splitter treats specially
                bs = list(prefix[1].encode()) + bs
                n = len(bs)
            payload.extend(bs)
            user.append(bs)
            vi = L.variant_index("Token", "Text")
            fl = L.adts["Token"]["variants"][vi][1]
            d = {"bytes": n, "style": Adt("Style", L.variant_index("Style", arg), ())}
            tokens.append(Adt("Token", vi, tuple(d[f] for f in fl)))
        else:
            vn = "BlockStart" if kind == "S" else "BlockEnd"
            tokens.append(Adt("Token", L.variant_index("Token", vn), (Adt("Block", L.variant_index("Block", arg), ()),)))
    dfl = L.adts["Doc"]["fields"]
    d = {"payload": BStr(tuple(payload)), "tokens": Seq(tuple(tokens))}
    return Adt("Doc", 0, tuple(d[f] for f in dfl)), user


VOID = {"br"}


def run_html_job(job, build):
    prog = tok.load_program(build, "full")
    ex = text_exec(prog, 1500000)
    template = TEMPLATES[job["template"]]
    lens = job["lens"]
    full = job["full"]
    out = {"stats": None, "cex": [], "inconclusive": [], "samples": [], "nontrivial": 0, "obligations": 0}

    def harness(ex):
        doc, user = mk_doc(ex, template, lens, job.get("prefix"))
        res = ex.call(parse_callee("Doc::render_html"), [Ref(Cell(doc, "doc"), ()), full, False])
        return (user, res)

    def on_path(ex, r):
        if r.kind != "ok":
            out["cex"].append({"kind": "html-panics", "info": str(r.info), "template": job["template"], "lens": lens})
            return
        user, res = r.value
        ob = list(TM.to_bstr(res).b)
        out["obligations"] += 1
        if ex.pc:
            out["nontrivial"] += 1
        bad = None
        mbad = None
        for b in ob:
            if is_sym(b) and not job.get("prefix"):
                c = z3.Or(b == 0x3C, b == 0x3E)
                if ex.check(c) == z3.sat:
                    ex.solver.push()
                    ex.solver.add(c)
                    mbad = ex.model()
                    ex.solver.pop()
                    bad = "a user `<` or `>` reaches the output"
                    break
        m = mbad or ex.model()
        text = "".join(chr(b) if isinstance(b, int) else "·" for b in ob)  # user bytes as a neutral dot
        if job.get("prefix") and bad is None:
            # with a concrete prefix the user part is concrete text too: a symbolic user byte that can be `<`
            # must not reach the output (checked byte-wise below), and the concrete prefix contains none
            for b in ob:
                if is_sym(b):
                    c = z3.Or(b == 0x3C, b == 0x3E)
                    if ex.check(c) == z3.sat:
                        ex.solver.push()
                        ex.solver.add(c)
                        mbad = ex.model()
                        ex.solver.pop()
                        bad = "a user `<` or `>` inside a code sample reaches the output"
                        m = mbad
                        break
        if bad is None:
            stack = []
            for close, tag in parse_tags(text):
                if tag in VOID:
                    continue
                if close:
                    if not stack or stack[-1] != tag:
                        bad = "</%s> does not match the innermost open tag %r" % (tag, stack[-1:] or None)
                        break
                    stack.pop()
                else:
                    stack.append(tag)
            if bad is None and stack:
                bad = "tags left open: %r" % stack
        shown = conc(m, ob).decode("latin1")
        if bad:
            out["cex"].append({"kind": "html-malformed", "why": bad, "template": job["template"], "lens": lens, "full": full,
                               "user_text": [conc(m, u).decode("latin1") for u in user], "output": shown})
        elif len(out["samples"]) < 1:
            out["samples"].append({"template": job["template"], "user_text": [conc(m, u).decode("latin1") for u in user], "output": shown})
    try:
        ex.explore(harness, on_path, max_paths=100000)
    except (Unmodelled, BoundExceeded, ExecError) as e:
        out["inconclusive"].append("%s %s [%s]" % (type(e).__name__, e, "/".join(ex.callstack[-3:])))
    out["stats"] = dict(ex.stats)
    out["models_used"] = dict(ex.model_hits)
    out["fn_hits"] = dict(ex.fn_hits)
    return out


# ------------------------------------------------------------------------------------------------

def spec_paths(level, prefix, acc):
    acc.append(tuple(prefix))
    for f in level.fields:
        if isinstance(f, G.Cmds):
            for c in f.cmds:
                spec_paths(c.level, prefix + [c.names[0]], acc)


def run_sections_job(job, build):
    prog = tok.load_program(build, "full")
    models = dict(tok.TOK_MODELS)
    models.update(FM.FMT_MODELS)
    ex = tok.new_exec(prog, models=models)
    g = CORPUS[job["grammar"]]
    out = {"stats": None, "cex": [], "inconclusive": [], "samples": [], "nontrivial": 1, "obligations": 0}

    def harness(ex):
        L = ex.prog.layout
        p = ex.call(parse_callee(g.builder), [])
        inner = p.fields[L.adts["OptionParser"]["fields"].index("inner")]
        info = p.fields[L.adts["OptionParser"]["fields"].index("info")]
        meta = ex.call(parse_callee("<P as Parser<T>>::meta"), [Ref(Cell(inner, "inner"), ())])
        path = Cell(Seq(("app",)), "path")
        secs = Cell(Seq(()), "sections")
        ex.call(parse_callee("buffer::extract_sections"), [Ref(Cell(meta, "meta"), ()), Ref(Cell(info, "info"), ()), Ref(path, ()), Ref(secs, ())])
        fl = L.adts["DocSection"]["fields"]
        return [tuple(rda(x) for x in s.fields[fl.index("path")].items) for s in secs.v.items]

    def on_path(ex, r):
        out["obligations"] += 1
        if r.kind != "ok":
            out["cex"].append({"kind": "sections-panics", "grammar": g.name, "info": str(r.info)})
            return
        got = r.value
        want = []
        spec_paths(g.level, ["app"], want)
        if sorted(got) != sorted(want):
            out["cex"].append({"kind": "sections-differ", "grammar": g.name, "got": [list(x) for x in got], "want": [list(x) for x in want]})
        else:
            out["samples"].append({"grammar": g.name, "sections": [" ".join(x) for x in got]})
    try:
        ex.explore(harness, on_path)
    except (Unmodelled, BoundExceeded, ExecError) as e:
        out["inconclusive"].append("%s %s [%s]" % (type(e).__name__, e, "/".join(ex.callstack[-3:])))
    out["stats"] = dict(ex.stats)
    out["models_used"] = dict(ex.model_hits)
    out["fn_hits"] = dict(ex.fn_hits)
    return out


# ------------------------------------------------------------------------------------------------
# whole documents

DOC_GRAMMARS = ["g1", "c1", "c2", "c3", "c7", "c9", "hd", "h2", "k1", "k6", "o1", "hr", "un", "gh"]  # no env-backed grammar: help shows the variable's current value
DOC_FORMATS = ("md", "html", "man")


def doc_plain(fmt, text):
    """markup removed; returns the list of lines"""
    if fmt == "html":
        text = re.sub(r"<br\s*/?>", "\n", text)
        text = re.sub(r"</(p|div|dt|dd|dl|h\d|li|ul)>", "\n", text)
        text = re.sub(r"<[^>]*>", "", text)
        for a, b in (("&lt;", "<"), ("&gt;", ">"), ("&mdash;", "-"), ("&amp;", "&")):
            text = text.replace(a, b)
    elif fmt == "md":
        text = re.sub(r"\\([\[\]])", r"\1", text)
        text = text.replace("**", "").replace("`", "")
        text = re.sub(r"(?<![A-Za-z0-9])_|_(?![A-Za-z0-9])", "", text)
        text = text.replace("&mdash;", "-")
    else:
        text = re.sub(r"\\f[BIRP]", "", text)
        text = text.replace("\\-", "-").replace("\\ ", " ").replace("\\&", "").replace("\\*(Aq", "'")
    return [ln.rstrip() for ln in text.split("\n")]


def doc_sections(fmt, lines, paths):
    """{path: [lines]} - a section starts at the header line that names the path"""
    heads = {}
    want = {" ".join(p): p for p in paths}
    for i, ln in enumerate(lines):
        if fmt == "man":
            if ln.startswith(".SH "):
                t = ln[4:].strip()
                for k, p in want.items():
                    if t == k.upper():
                        heads.setdefault(p, []).append(i)
        else:
            m = re.match(r"^\s*#+ (.*)$", ln)
            if m and m.group(1).strip() in want:
                heads.setdefault(want[m.group(1).strip()], []).append(i)
    return heads


def doc_oracle(fmt, text, g):
    """problems found in one rendered document of grammar g"""
    problems = []
    lines = doc_plain(fmt, text)
    if g.level is not None:
        paths = []
        spec_paths(g.level, ["app"], paths)
    else:
        paths = [("app",)]
    multi = len(paths) > 1
    if multi:
        heads = doc_sections(fmt, lines, paths)
        for p in paths:
            n = len(heads.get(p, []))
            if n != 1:
                problems.append("command level %r has %d section headers" % (" ".join(p), n))
        order = sorted((v[0], p) for p, v in heads.items() if v)
        bounds = {}
        for k, (start, p) in enumerate(order):
            end = order[k + 1][0] if k + 1 < len(order) else len(lines)
            bounds[p] = (start, end)
    else:
        bounds = {paths[0]: (0, len(lines))}

    def level_of(path):
        lv = g.level
        for nm in path[1:]:
            for f in lv.fields:
                if isinstance(f, G.Cmds):
                    for c in f.cmds:
                        if c.names[0] == nm:
                            lv = c.level
        return lv
    hidden_names = []
    for p in paths:
        if p not in bounds:
            continue
        a, b = bounds[p]
        body = "\n".join(lines[a:b])
        toks = set(re.split(r"[\s,=\[\]()|]+", body))
        if g.level is None:
            # names-only grammars (adjacent groups): an undocumented member of an adjacent group is shown
            # in the group's usage line only, under its short name - either spelling counts
            if len(g.all_shorts) == len(g.all_longs):
                named = [("--" + l, "-" + chr(c)) for c, l in zip(g.all_shorts, g.all_longs)]
            else:
                named = [("--" + l) for l in g.all_longs]
            cmds = list(g.cmd_names)
        else:
            lv = level_of(p)
            named = []
            from .C10 import level_named
            for f in level_named(lv):
                nm = ("--" + f.longs[0]) if f.longs else ("-" + chr(f.shorts[0]))
                if getattr(f, "hidden", False):
                    hidden_names.append(nm)
                else:
                    named.append(nm)
            cmds = [c.names[0] for f in lv.fields if isinstance(f, G.Cmds) for c in f.cmds]
        for nm in named:
            alts = nm if type(nm) is tuple else (nm,)
            if not any(a in toks for a in alts):
                problems.append("section %r does not mention %s" % (" ".join(p), alts[0]))
        for c in cmds:
            if c not in toks:
                problems.append("section %r does not mention the command %s" % (" ".join(p), c))
    alltoks = set(re.split(r"[\s,=\[\]()|]+", "\n".join(lines)))
    for nm in hidden_names:
        if nm in alltoks:
            problems.append("hidden item %s is mentioned" % nm)
    return problems


def run_doc_job(job, build):
    """collect_html + Doc::render_markdown / render_html and OptionParser::render_manpage executed
    from the full-feature MIR on a corpus grammar (the builder runs from MIR too); the text is read by
    doc_oracle and compared byte for byte with the natively rendered document"""
    from . import C12
    from .framework import Replayer
    prog = tok.load_program(build, "full")
    models = C12.help_models()
    models.pop("Doc::to_completion", None)
    models.update(TM.TEXT_MODELS)
    models.update(FM.FMT_MODELS)
    ex = tok.new_exec(prog, models=models, step_budget=8000000)
    TM.install_hooks(ex)
    ex.debug_repr = C12.stable_repr
    g = CORPUS[job["grammar"]]
    fmt = job["fmt"]
    out = {"stats": None, "cex": [], "inconclusive": [], "samples": [], "nontrivial": 1, "obligations": 0}

    def harness(ex):
        L = ex.prog.layout
        p = ex.call(parse_callee(g.builder), [])
        if fmt == "man":
            sec = Adt("Section", L.variant_index("Section", "General"), ())
            return ex.call(parse_callee("OptionParser::render_manpage"), [Ref(Cell(p, "p"), ()), "app", sec, NONE, NONE, NONE])
        inner = p.fields[L.adts["OptionParser"]["fields"].index("inner")]
        info = p.fields[L.adts["OptionParser"]["fields"].index("info")]
        meta = ex.call(parse_callee("<P as Parser<T>>::meta"), [Ref(Cell(inner, "inner"), ())])
        doc = ex.call(parse_callee("buffer::html::collect_html"), ["app", Ref(Cell(meta, "meta"), ()), Ref(Cell(info, "info"), ())])
        if fmt == "md":
            return ex.call(parse_callee("Doc::render_markdown"), [Ref(Cell(doc, "doc"), ()), True])
        return ex.call(parse_callee("Doc::render_html"), [Ref(Cell(doc, "doc"), ()), True, False])

    texts = []

    def on_path(ex, r):
        out["obligations"] += 1
        if r.kind != "ok":
            out["cex"].append({"kind": "doc-panics", "grammar": g.name, "fmt": fmt, "why": str(r.info)})
            return
        v = rda(r.value)
        if type(v) is BStr:
            if not all(isinstance(b, int) for b in v.b):
                out["inconclusive"].append("document text is not concrete")
                return
            v = bytes(v.b).decode("utf-8", "replace")
        texts.append(v)
    try:
        ex.explore(harness, on_path)
    except (Unmodelled, BoundExceeded, ExecError) as e:
        out["inconclusive"].append("%s %s [%s]" % (type(e).__name__, e, "/".join(getattr(e, "stack", None) or ex.callstack[-3:])))
    out["stats"] = dict(ex.stats)
    out["models_used"] = dict(ex.model_hits)
    out["fn_hits"] = dict(ex.fn_hits)
    if len(texts) != 1:
        if not out["inconclusive"] and not out["cex"]:
            out["inconclusive"].append("%d paths for a fixed definition" % len(texts))
        return out
    text = texts[0]
    import ast
    (cls, pay), = Replayer(build["sets"]["full"]["replay"]).run([("doc:%s:%s" % (fmt, g.name), [], {})])
    try:
        native = ast.literal_eval(pay) if cls == "doc" else None
    except Exception:  # noqa: BLE001
        native = None
    out["validated"] = 1
    out["validated_agree"] = int(native == text)
    if native != text:
        out["inconclusive"].append("ENCODING-MISMATCH %s document of %s: MIR execution and the native build differ (native class %s)" % (fmt, g.name, cls))
        return out
    problems = doc_oracle(fmt, text, g)
    if problems:
        out["cex"].append({"kind": "doc-incomplete", "grammar": g.name, "fmt": fmt, "why": "; ".join(problems[:4]), "text": text[:3000],
                           "native_same_text": True})
    else:
        out["samples"].append({"grammar": g.name, "format": fmt, "bytes": len(text), "first_lines": [ln for ln in doc_plain(fmt, text) if ln.strip()][:6]})
    return out


def run_gendoc_job(job, build):
    """documents of *solver-chosen* definitions: C12's Meta-tree generator with nested command levels;
    collect_html + render_markdown / render_html from MIR; every generated command level has exactly
    one section, the section mentions the long names / positionals-with-help / command names of its
    level, hidden names are mentioned nowhere"""
    from . import C12
    prog = tok.load_program(build, "full")
    models = C12.help_models()
    models.pop("Doc::to_completion", None)
    models.update(TM.TEXT_MODELS)
    models.update(FM.FMT_MODELS)
    ex = tok.new_exec(prog, models=models, step_budget=8000000)
    TM.install_hooks(ex)
    ex.debug_repr = C12.stable_repr
    fmt = job["fmt"]
    out = {"stats": None, "cex": [], "inconclusive": [], "samples": [], "nontrivial": 0, "obligations": 0}

    def harness(ex):
        ex.info_default = ex.call(parse_callee("<Info as Default>::default"), [])
        g = C12.Gen(ex, job["budget"])
        g.nest = job["nest"]
        g.force = list(job["force"])
        meta = g.tree(job["depth"])
        doc = ex.call(parse_callee("buffer::html::collect_html"), ["app", Ref(Cell(meta, "meta"), ()), Ref(Cell(ex.info_default, "info"), ())])
        if fmt == "md":
            text = ex.call(parse_callee("Doc::render_markdown"), [Ref(Cell(doc, "doc"), ()), True])
        else:
            text = ex.call(parse_callee("Doc::render_html"), [Ref(Cell(doc, "doc"), ()), True, False])
        return (g, text, meta)

    def on_path(ex, r):
        out["obligations"] += 1
        if ex.pc:
            out["nontrivial"] += 1
        if r.kind != "ok":
            if "bpaf usage BUG" in str(r.info):
                # the generated definition breaks the documented positional invariant (what check_invariants
                # rejects): outside the quantifier of the property
                out["outside"] = out.get("outside", 0) + 1
                return
            out["cex"].append({"kind": "doc-panics", "grammar": "generated", "fmt": fmt, "why": "%s (job %s)" % (r.info, job["id"])})
            return
        g, text, meta = r.value
        text = rda(text)
        if type(text) is BStr:
            text = bytes(text.b).decode("utf-8", "replace")
        if not isinstance(text, str):
            out["inconclusive"].append("document text is not concrete")
            return
        lines = doc_plain(fmt, text)
        paths = [("app",) + p for p in g.levels]
        problems = []
        if len(paths) > 1:
            heads = doc_sections(fmt, lines, paths)
            for p in paths:
                n = len(heads.get(p, []))
                if n != 1:
                    problems.append("command level %r has %d section headers" % (" ".join(p), n))
            order = sorted((v[0], p) for p, v in heads.items() if v)
            bounds = {p: (st, order[k + 1][0] if k + 1 < len(order) else len(lines)) for k, (st, p) in enumerate(order)}
        else:
            bounds = {paths[0]: (0, len(lines))}
        alltoks = set(re.split(r"[\s,=\[\]()|]+", "\n".join(lines)))
        for p, lv in g.levels.items():
            full = ("app",) + p
            if full not in bounds:
                continue
            a, b = bounds[full]
            toks = set(re.split(r"[\s,=\[\]()|]+", "\n".join(lines[a:b])))
            for kind, name, mv, hlp, adj in lv["visible"]:
                if adj and not hlp:
                    continue  # undocumented member of an adjacent group: usage line of the group only (C12)
                if name not in toks:
                    problems.append("section %r does not mention %s" % (" ".join(full), name))
            for name in lv["hidden"]:
                if name in alltoks:
                    problems.append("hidden item %s is mentioned" % name)
        if problems:
            out["cex"].append({"kind": "doc-incomplete", "grammar": "generated", "fmt": fmt, "why": "; ".join(problems[:4]) + " (tree %s)" % C12.stable_repr(meta)[:500],
                               "text": text[:3000], "native_same_text": False})
        elif len(out["samples"]) < 1 and len(g.levels) > 1:
            out["samples"].append({"generated_levels": [" ".join(("app",) + p) for p in g.levels], "format": fmt})
    try:
        ex.explore(harness, on_path, max_paths=400000)
    except (Unmodelled, BoundExceeded, ExecError) as e:
        out["inconclusive"].append("%s %s [%s]" % (type(e).__name__, e, "/".join(getattr(e, "stack", None) or ex.callstack[-3:])))
    out["stats"] = dict(ex.stats)
    out["models_used"] = dict(ex.model_hits)
    out["fn_hits"] = dict(ex.fn_hits)
    return out


# ------------------------------------------------------------------------------------------------

def make_jobs(tier, seed, build):
    jobs = []
    units = [("own", i) for i in range(len(OWN))] + [("user", m) for m in USER_MODES]
    maxlen = 3 if tier == "quick" else 4
    for k in range(1, maxlen + 1):
        for seq in itertools.product(units, repeat=k):
            if not any(u[0] == "user" for u in seq):
                continue
            # Escape::Spaces is only used by Roff::control for the arguments of a control line: such a
            # fragment always follows the literal separator `" "` on the same line
            if any(u == ("user", "Spaces") and (i == 0 or seq[i - 1] != ("own", 2)) for i, u in enumerate(seq)):
                continue
            if k == maxlen and sum(1 for u in seq if u[0] == "user") > 2:
                continue
            for ul in ((1,), (2,)) if tier == "quick" else (((1,), (2,), (3,)) if k < 4 else ((1,),)):
                if ul[0] * sum(1 for u in seq if u[0] == "user") > 6:
                    continue  # more than six symbolic bytes exhaust the path budget (inconclusive, not a verdict)
                frags = [list(u) if u[0] == "own" else ["user", u[1], ul[0]] for u in seq]
                for ap in ("Handle",) if k > 2 else ("Handle", "DontHandle"):
                    jobs.append({"id": "escape:%s:%d:%s" % ("+".join("o%d" % u[1] if u[0] == "own" else u[1] for u in seq), ul[0], ap),
                                 "kind": "escape", "frags": frags, "ap": ap})
    for name in ROFF_OPS:
        for n in (1, 2, 3) if tier == "quick" else (1, 2, 3, 4):
            nu = sum(1 for op in ROFF_OPS[name] for k in ([op[1]] if op[0] == "plaintext" else [k for _, k in op[1]] if op[0] == "text" else op[2] if op[0] == "control" else []) if k is None)
            if n * nu > (4 if tier == "quick" else 6):
                continue
            for ap in ("Handle", "DontHandle"):
                jobs.append({"id": "roff:%s:%d:%s" % (name, n, ap), "kind": "roff", "ops": name, "len": n, "ap": ap})
    for fmt in ("man", "html"):
        for slot in sorted(UDOC_SLOTS):
            if fmt == "html" and slot > 4:
                continue
            for n in (1, 2, 3) if tier == "quick" else (1, 2, 3, 4):
                jobs.append({"id": "udoc:%s:%d:%d" % (fmt, slot, n), "kind": "udoc", "fmt": fmt, "slot": slot, "len": n, "weight": n})
    jobs.append({"id": "style", "kind": "style"})
    for tname, t in TEMPLATES.items():
        nt = sum(1 for k, _ in t if k == "T")
        total = 4 if tier == "quick" else 5
        for lens in itertools.product(range(0, 4), repeat=nt):
            if sum(lens) > total or sum(lens) == 0:
                continue
            for full in (True, False):
                jobs.append({"id": "html:%s:%s:%d" % (tname, ",".join(map(str, lens)), int(full)), "kind": "html", "template": tname, "lens": list(lens), "full": full})
    # text that starts with the structures the Splitter treats as code samples / paragraph breaks
    for prefix in ("\n    ", "\n\n    ", "\n\n```\n", "a\n\n"):
        for tname in ("plain", "block"):
            for n in (1, 2):
                for full in (True, False):
                    jobs.append({"id": "html:%s:prefix%r:%d:%d" % (tname, prefix, n, int(full)), "kind": "html", "template": tname, "lens": [n], "full": full, "prefix": [0, prefix]})
    for gname in ("c1", "c2", "c3", "c4", "h2", "g1", "c7", "c8", "c9", "gh"):
        jobs.append({"id": "sections:%s" % gname, "kind": "sections", "grammar": gname})
    for gname in DOC_GRAMMARS:
        for fmt in DOC_FORMATS:
            jobs.append({"id": "doc:%s:%s" % (fmt, gname), "kind": "doc", "grammar": gname, "fmt": fmt})
    nsh = 13
    for fmt in ("md", "html"):
        # (depth 2, budget 2) does not finish within 25 minutes on 16 cores: the thorough tier adds a second nesting level instead
        for depth, budget, nest in ((1, 1, 1), (2, 1, 1)) if tier == "quick" else ((1, 1, 1), (2, 1, 1), (2, 1, 2)):
            for a in range(nsh):
                for b in range(nsh if depth > 1 else 1):
                    force = [a, b] if depth > 1 else [a]
                    jobs.append({"id": "gendoc:%s:%d:%d:%s" % (fmt, depth, budget, "-".join(map(str, force))), "kind": "gendoc", "fmt": fmt, "depth": depth,
                                 "budget": budget, "nest": nest, "force": force, "weight": depth * budget})
    return jobs


def run_job(job, build):
    k = job["kind"]
    if k == "escape":
        return run_escape_job(job, build)
    if k == "roff":
        return run_roff_job(job, build)
    if k == "udoc":
        return run_udoc_job(job, build)
    if k == "style":
        return run_style_job(job, build)
    if k == "html":
        return run_html_job(job, build)
    if k == "doc":
        return run_doc_job(job, build)
    if k == "gendoc":
        return run_gendoc_job(job, build)
    return run_sections_job(job, build)


def finding_key(c):
    if c["kind"] == "roff-unsafe" and "backslash" in c["why"]:
        modes = [f[1] for f in c["frags"] if f[0] == "user"]
        if any(f[0] == "api" and "control" in str(ROFF_OPS[f[1]]) for f in c["frags"]):
            modes.append("Spaces")
        if "Spaces" in modes:
            return "roff-control-argument-backslash-unescaped"
    return None


def finish(results, jobs, build, out, tier, seed, wall):
    from . import framework as fw
    st = fw.merge_stats(results)
    samples = []
    for r in results:
        if r.get("error"):
            out.inconc("job %s crashed: %s" % (r["job"], r["error"]))
        for w in r.get("inconclusive", []):
            out.inconc("%s: %s" % (r["job"], w))
        for s in r.get("samples", [])[:1]:
            if len(samples) < 14 and (len(samples) < 6 or "template" in s or "sections" in s or "cur" in s):
                samples.append(s)
        for c in r.get("cex", []):
            if c["kind"] == "roff-unsafe":
                out.violation(finding_key(c) or ("roff:%s:%s" % (c["why"][:40], r["job"])),
                              "roff escape(): %s; fragments %s, user text %r => %r" % (c["why"], c["frags"], c["user_text"], c["output"]), c)
            elif c["kind"] == "udoc-unsafe":
                what = "%s document of grammar ut with %s = %r: %s" % (c["fmt"], UDOC_SLOTS[c["slot"]], c["user_text"], c["why"])
                if c.get("reproduced"):
                    out.violation("udoc:%s:%d:%s" % (c["fmt"], c["slot"], c["why"][:40]), what, c)
                else:
                    out.inconc("NONREPRO " + what)
            elif c["kind"] == "html-malformed":
                out.violation("html:%s:%s" % (c["template"], c["why"][:50]), "render_html(%s, full=%s) with text %r: %s; output %r" % (c["template"], c["full"], c["user_text"], c["why"], c["output"]), c)
            elif c["kind"] == "doc-incomplete":
                out.violation("doc:%s:%s:%s" % (c["fmt"], c["grammar"], r["job"]), "%s document of grammar %s%s: %s" % (c["fmt"], c["grammar"], " (identical natively)" if c.get("native_same_text") else "", c["why"]), c)
            elif c["kind"] == "sections-differ":
                out.violation("sections:%s" % c["grammar"], "extract_sections on %s visits %r, the command tree is %r" % (c["grammar"], c["got"], c["want"]), c)
            else:
                out.violation("%s:%s" % (c["kind"], r["job"]), "%s: %s" % (c["kind"], c.get("info") or c.get("why")), c)
    cov = {
        "evaluations": st["queries"] + sum(r.get("obligations", 0) for r in results),
        "distinct_nontrivial": sum(r.get("nontrivial", 0) for r in results),
        "rule": "one case = one feasible path of the kernel over symbolic bytes / booleans (non-trivial: the path condition constrains an input byte)",
        "samples": samples,
        "states": max(st["paths"], 1),
        "transitions": max(st["decisions"], 1),
        "exhaustive": not out.inconclusive,
        "paths": st["paths"],
        "queries": {"total": st["queries"], "sat": st["sat"], "unsat": st["unsat"], "unknown": st["unknown"]},
        "solver_time_s": st["solver_s"],
        "obligations": sum(r.get("obligations", 0) for r in results),
        "bounds": {"roff": "1..=%d fragments (5 of bpaf's own, 3 user modes), user fragments of 1..=%d bytes (one byte in sequences of four fragments) over {. ' \\\\ - space \\\\n a}" % ((3, 2) if tier == "quick" else (4, 3)),
                   "roff_api": "%d call sequences of the Roff builder (%s), user strings of 1..=%d symbolic bytes over {. ' \\ - space \\n a \"}, at most %d symbolic bytes per sequence, both apostrophe modes" % (len(ROFF_OPS), " ".join(ROFF_OPS), 3 if tier == "quick" else 4, 4 if tier == "quick" else 6),
                   "udoc": "grammar ut, 8 text slots (5 in html), user text of 1..=%d symbolic bytes in one slot at a time, the others are `a`" % (3 if tier == "quick" else 4),
                   "html": "7 block templates, text bytes over {< > & a space \\\\n}, total text length <= %d, full and short" % (4 if tier == "quick" else 5),
                   "style": "all 64 (current, new) pairs", "sections": "c1 c2 c3 c4 h2 g1 c7 c8 c9",
                   "documents": "markdown, html and manpage of %s: every command level has exactly one section, each section mentions the visible named items and commands of its level, hidden items are mentioned nowhere; text identical to the native build's" % " ".join(DOC_GRAMMARS)},
        "jobs": {k: len([j for j in jobs if j["kind"] == k]) for k in ("escape", "roff", "udoc", "style", "html", "sections", "doc", "gendoc")},
        "traces_validated_against_impl": sum(r.get("validated_agree", 0) for r in results),
        "functions_encoded": sorted(fw.merge_counts(results, "fn_hits")),
        "models_used": fw.merge_counts(results, "models_used"),
        "repo_src_hash": build.get("repo_hash"),
    }
    assumptions = [
        "provenance in the roff kernel is exact because inserted bytes are concrete and user bytes stay symbolic on every path",
        "escape:* jobs: user text is pushed with Special / SpecialNoNewline / Spaces, a Spaces fragment always follows the literal argument separator, bpaf's own fragments are the literals used in roff.rs; roff:* jobs drop these assumptions (the builder API is executed and picks the modes itself)",
        "HTML: user bytes are rendered as text; the tag structure is read from the concrete part of the output",
        "whole documents are rendered for fixed corpus definitions (no symbolic input: the definition is the only input); the per-section obligations read names, not help texts or metavariables; markdown cosmetics are not judged",
    ]
    return {"tier": tier, "seed": seed, "level": "model_checking", "coverage": cov, "assumptions": assumptions}
