"""C19 - adjacent groups consume contiguous blocks only.

Grammars: k1 `--point X Y` (many) + switch + trailing positional; k2/k3 optional option-struct
`--rect --width W --height H` (group evaluated before / after a switch); k4 the same repeated;
kc adjacent subcommand chain `c [-a]` (many) + top-level switch + positional tail.

Oracle (block decomposition, written from the documentation of `adjacent`):
  soundness     Ok => every group value is built from the items of ONE contiguous block that
                starts at a group-start item (provenance of the value ids), blocks are disjoint
                and values follow command line order
  completeness  a "clean" line (complete blocks, other declared options between them, trailing
                positionals after them, all values valid) => Ok with exactly the block values
  interruption  a group-start item that is not followed by a complete block => stderr
Lines that are neither clean nor broken (e.g. a positional before a block) only get the
soundness obligation: the documentation does not fix their outcome.
"""
import z3

from mirsym.values import *
from mirsym.models import val_eq, NONE
from mirsym.engine import parse_callee, Unmodelled, ExecError, BoundExceeded
from spec import grammar as G
from . import tok
from .tokdiff import TokOracle, help_names, assume_not_named, run_tok_job, finish_tok, spec_env
from .corpus import CORPUS

PROP = "C19"
GRAMMARS = ["k1", "k2", "k3", "k4", "k5", "kc", "k6"]

N_P = G.Named("req_flag", "p", ["point"])
N_R = G.Named("req_flag", "r", ["rect"])
N_W = G.Named("arg", "w", ["width"])
N_H = G.Named("arg", "h", ["height"])
N_S = G.Named("switch", "s", ["sw"])
N_V = G.Named("switch", "v", ["verbose"])
N_A = G.Named("switch", "a", ["all"])


def m(ex, env, f, it):
    return it.kind in ("short", "long") and G.name_match(ex, env, f, it)


def valid(ex, env, v):
    return ex.branch(env.valid(v), "c19-valid")


def scan(ex, env, gname, items):
    """returns ('clean', value) | ('broken', why) | ('other', why)"""
    n = len(items)
    hi = n
    for i, it in enumerate(items):
        if it.kind == "dd":
            hi = i
            break
    i = 0
    blocks = []
    sw = 0
    rest = []
    other = None
    if gname == "k1":
        while i < n:
            it = items[i]
            if it.kind == "dd":
                i += 1
                continue
            if i < hi and m(ex, env, N_P, it):
                if it.adj:
                    return ("broken", "point with attached value")
                if i + 2 < hi + 0 and items[i + 1].kind == "word" and items[i + 2].kind == "word" and i + 2 < hi:
                    if not (valid(ex, env, items[i + 1].val) and valid(ex, env, items[i + 2].val)):
                        return ("broken", "invalid member value")
                    if rest:
                        other = "positional before a block"
                    blocks.append((env.value(items[i + 1].val), env.value(items[i + 2].val)))
                    i += 3
                    continue
                return ("broken", "point block cut short")
            if i < hi and m(ex, env, N_S, it):
                if it.adj:
                    return ("broken", "switch with attached value")
                sw += 1
                i += 1
                continue
            if it.kind in ("word", "posword"):
                rest.append(it.val)
                i += 1
                continue
            return ("broken", "foreign item")
        if sw > 1 or len(rest) > 1:
            return ("broken", "surplus item")
        if rest and not valid(ex, env, rest[0]):
            return ("broken", "invalid positional")
        if other:
            return ("other", other)
        z = G.SOME(env.value(rest[0])) if rest else G.NONE
        return ("clean", (Seq(tuple(blocks)), sw == 1, z))
    if gname in ("k2", "k3", "k4"):
        while i < n:
            it = items[i]
            if it.kind == "dd":
                # nothing may follow: these grammars have no positionals
                if i + 1 < n:
                    return ("broken", "positional data")
                i += 1
                continue
            if m(ex, env, N_R, it):
                if it.adj:
                    return ("broken", "rect with attached value")
                got = {}
                j = i + 1
                for _ in range(2):
                    if j + 1 < hi + 0 and j + 1 <= hi - 1 and items[j].kind in ("short", "long") and items[j + 1].kind in ("word", "argword"):
                        if m(ex, env, N_W, items[j]) and "w" not in got:
                            got["w"] = items[j + 1].val
                        elif m(ex, env, N_H, items[j]) and "h" not in got:
                            got["h"] = items[j + 1].val
                        else:
                            return ("broken", "rect block interrupted")
                        j += 2
                    else:
                        return ("broken", "rect block cut short")
                if not (valid(ex, env, got["w"]) and valid(ex, env, got["h"])):
                    return ("broken", "invalid member value")
                blocks.append((env.value(got["w"]), env.value(got["h"])))
                i = j
                continue
            if m(ex, env, N_S, it):
                if it.adj:
                    return ("broken", "switch with attached value")
                sw += 1
                i += 1
                continue
            return ("broken", "foreign item")
        if sw > 1:
            return ("broken", "switch twice")
        if gname in ("k2", "k3"):
            if len(blocks) > 1:
                return ("broken", "second block for an optional group")
            r = G.SOME(blocks[0]) if blocks else G.NONE
            return ("clean", (r, sw == 1) if gname == "k2" else (sw == 1, r))
        return ("clean", (sw == 1, Seq(tuple(blocks))))
    if gname == "k5":
        while i < n:
            it = items[i]
            if it.kind == "dd":
                i += 1
                continue
            if i < hi and m(ex, env, N_R, it):
                if it.adj:
                    return ("broken", "rect with attached value")
                j = i + 1
                if j + 1 <= hi - 1 and m(ex, env, N_W, items[j]) and items[j + 1].kind in ("word", "argword"):
                    if not valid(ex, env, items[j + 1].val):
                        return ("broken", "invalid member value")
                    if rest:
                        other = "positional before a block"
                    blocks.append(env.value(items[j + 1].val))
                    i = j + 2
                    continue
                return ("broken", "block cut short or interrupted")
            if i < hi and m(ex, env, N_S, it):
                if it.adj:
                    return ("broken", "switch with attached value")
                sw += 1
                i += 1
                continue
            if it.kind in ("word", "posword"):
                rest.append(it.val)
                i += 1
                continue
            return ("broken", "foreign item")
        if sw > 1 or len(rest) > 1 or len(blocks) > 1:
            return ("broken", "surplus item")
        if rest and not valid(ex, env, rest[0]):
            return ("broken", "invalid positional")
        if other:
            return ("other", other)
        return ("clean", (sw == 1, G.SOME(blocks[0]) if blocks else G.NONE, G.SOME(env.value(rest[0])) if rest else G.NONE))
    if gname == "k6":
        # nested adjacent groups: a block is `--rect` immediately followed by a complete `--point X Y` block
        while i < n:
            it = items[i]
            if it.kind == "dd":
                if i + 1 < n:
                    return ("broken", "positional data")
                i += 1
                continue
            if m(ex, env, N_R, it):
                if it.adj:
                    return ("broken", "rect with attached value")
                if i + 3 < hi + 0 and i + 3 <= hi - 1 and m(ex, env, N_P, items[i + 1]) and not items[i + 1].adj \
                        and items[i + 2].kind == "word" and items[i + 3].kind == "word":
                    if not (valid(ex, env, items[i + 2].val) and valid(ex, env, items[i + 3].val)):
                        return ("broken", "invalid member value")
                    blocks.append((env.value(items[i + 2].val), env.value(items[i + 3].val)))
                    i += 4
                    continue
                return ("broken", "rect block cut short or interrupted")
            if m(ex, env, N_S, it):
                if it.adj:
                    return ("broken", "switch with attached value")
                sw += 1
                i += 1
                continue
            return ("broken", "foreign item (or --point away from its --rect)")
        if sw > 1:
            return ("broken", "switch twice")
        return ("clean", (Seq(tuple(blocks)), sw == 1))
    if gname == "kc":
        vs = 0
        while i < n:
            it = items[i]
            if it.kind == "dd":
                i += 1
                continue
            if it.kind == "word" and ex.branch(it.val == env.intern("c"), "c19-cmd"):
                if rest:
                    other = "positional before a command block"
                a = False
                if i + 1 < hi and m(ex, env, N_A, items[i + 1]):
                    if items[i + 1].adj:
                        return ("broken", "switch with attached value")
                    a = True
                    i += 1
                blocks.append(a)
                i += 1
                continue
            if i < hi and m(ex, env, N_V, it):
                if it.adj:
                    return ("broken", "switch with attached value")
                vs += 1
                i += 1
                continue
            if it.kind in ("word", "posword"):
                rest.append(it.val)
                i += 1
                continue
            return ("broken", "foreign item (or -a away from its command)")
        if vs > 1:
            return ("broken", "switch twice")
        for r in rest:
            if not valid(ex, env, r):
                return ("broken", "invalid positional")
        if other:
            return ("other", other)
        return ("clean", (vs == 1, Seq(tuple(blocks)), Seq(tuple(env.value(r) for r in rest))))
    raise ValueError(gname)


def src_index(words_items, term):
    """index of the item whose value id is `term` (syntactic identity)"""
    for i, it in enumerate(words_items):
        if it.val is not None and not isinstance(it.val, int) and it.val.get_id() == term.get_id():
            return i
    return None


def u32_src(v):
    if is_sym(v) and z3.is_app(v) and v.decl().name() == "u32_of":
        return v.arg(0)
    return None


class Oracle(TokOracle):
    assumptions = [
        "no item is the help flag",
        "group shapes and names are those of harness grammars k1-k4, kc (stated independently in props/C19.py)",
    ]

    def assume(self, ex, g, words, parser):
        (hs, hl), (vs, vl), has_version = help_names(ex, parser)
        assume_not_named(ex, words, hs, hl)

    def judge(self, ex, g, words, cls, payload, state, report, out):
        items = G.items_of_words(words)
        env = spec_env(ex)
        # ---- soundness by provenance (independent of the scan) ----
        if cls == "ok" and g.name == "k5":
            v = payload[1]
            if v.var == 1:
                sv = u32_src(v.fields[0])
                iv = src_index(items, sv) if sv is not None else None
                bad = None
                if iv is None or iv < 2:
                    bad = "group value does not come from a block"
                elif ex.prove(self.match_cond(ex, N_W, items[iv - 1])) is not None or ex.prove(self.match_cond(ex, N_R, items[iv - 2])) is not None:
                    bad = "--rect, --width and its value are not neighbours"
                if bad:
                    report("non-contiguous-group", words, (cls, payload), ["stderr or contiguous blocks", bad])
                    return
            out["soundness_obligations"] = out.get("soundness_obligations", 0) + 1
        elif cls == "ok" and g.name != "kc":
            pairs = None
            if g.name == "k1":
                pairs = list(payload[0].items)
            elif g.name == "k2":
                pairs = [payload[0].fields[0]] if payload[0].var == 1 else []
            elif g.name == "k3":
                pairs = [payload[1].fields[0]] if payload[1].var == 1 else []
            elif g.name == "k4":
                pairs = list(payload[1].items)
            elif g.name == "k6":
                pairs = list(payload[0].items)
            last_start = -1
            for pr in pairs:
                sa, sb = u32_src(pr[0]), u32_src(pr[1])
                ia = src_index(items, sa) if sa is not None else None
                ib = src_index(items, sb) if sb is not None else None
                bad = None
                if ia is None or ib is None:
                    bad = "group value does not come from an item"
                elif g.name == "k6":
                    if ib != ia + 1 or ia < 2:
                        bad = "X and Y are not neighbours right after --rect --point"
                    elif ex.prove(self.match_cond(ex, N_P, items[ia - 1])) is not None or ex.prove(self.match_cond(ex, N_R, items[ia - 2])) is not None:
                        bad = "block does not start with --rect --point"
                    start = ia - 2
                elif g.name == "k1":
                    if ib != ia + 1 or ia == 0:
                        bad = "X and Y are not neighbours right after the flag"
                    elif ex.prove(self.match_cond(ex, N_P, items[ia - 1])) is not None:
                        bad = "block does not start at a --point item"
                    start = ia - 1
                else:
                    lo_ = min(ia, ib) - 1
                    if sorted([ia - 1, ia, ib - 1, ib]) != list(range(lo_, lo_ + 4)) or lo_ == 0:
                        bad = "width/height occurrences are not one contiguous run"
                    elif ex.prove(self.match_cond(ex, N_R, items[lo_ - 1])) is not None:
                        bad = "block does not start at a --rect item"
                    start = lo_ - 1
                if bad is None and start <= last_start:
                    bad = "group values are not in command line order"
                if bad:
                    report("non-contiguous-group", words, (cls, payload), ["stderr or contiguous blocks", bad])
                    return
                last_start = start
            out["soundness_obligations"] = out.get("soundness_obligations", 0) + 1

        def leaf(ex2, sres):
            out["spec_leaves"] += 1
            kind = sres[0]
            out.setdefault("scan", {})
            out["scan"][kind] = out["scan"].get(kind, 0) + 1
            if kind == "clean":
                if cls != "ok":
                    report("clean-blocks-rejected", words, (cls, payload), ["ok", repr(sres[1])])
                    return
                eq = val_eq(ex2, payload, sres[1])
                if ex2.prove(eq) is not None:
                    ex2.solver.push()
                    ex2.solver.add(z3.Not(eq))
                    report("block-values-differ", words, (cls, payload), ["ok", repr(sres[1])])
                    ex2.solver.pop()
            elif kind == "broken":
                if cls != "stderr":
                    report("broken-block-accepted", words, (cls, payload), ["stderr", sres[1]])
        ex.sub_explore(lambda e: scan(e, env, g.name, items), leaf)

    @staticmethod
    def match_cond(ex, f, it):
        if it.kind == "short":
            return z3.Or(*[it.name == s for s in f.shorts])
        if it.kind == "long":
            return z3.Or(*[it.name == ex.intern(l) for l in f.longs])
        return False


def make_jobs(tier, seed, build):
    jobs = []
    for gname in GRAMMARS:
        g = CORPUS[gname]
        nmax = 3 if tier == "quick" else 4
        shapes = list(tok.all_shapes_by_words(nmax, g.decl, full_upto=3))
        if gname == "k5" and tier == "quick":
            # the smallest interrupted block with something to its left needs 4 words
            shapes += [("word",) + t for t in __import__("itertools").product(("short", "long", "short=", "long="), repeat=3)]
        if gname == "k6" and tier == "quick":
            # a complete nested block is 4 words; the inner block left or right of its anchor
            fl = ("short", "long")
            shapes += [(a, b, "word", "word") for a in fl for b in fl] + [(a, "word", "word", b) for a in fl for b in fl]
        for shape in shapes:
            if True:
                if len(shape) >= 4 and ("dd" in shape[:-1]):
                    continue
                jobs.append({"id": "%s:%s" % (gname, ",".join(shape)), "grammar": gname, "shape": shape, "fs": "none"})
    for n in range(1, (4 if tier == "quick" else 5) + 1):
        for mask in range(3 ** n):
            if n == 5 and any((mask // 3 ** i) % 3 == 2 for i in range(n)) and sum(1 for i in range(n) if (mask // 3 ** i) % 3 == 2) > 2:
                continue  # five items: at most two conflict marks
            jobs.append({"id": "lemma:%d:%s" % (n, "".join(str((mask // 3 ** i) % 3) for i in range(n))), "kind": "lemma", "n": n, "present": mask, "shape": (), "weight": n})
    return jobs


def run_lemma_job(job, build):
    """ParseAdjacent::eval from an arbitrary well-formed state (any subset of the n items already
    consumed, any scope) around a solver-chosen deterministic inner parser (lemmas.det_parser):
      * Ok  => the items it consumed form one contiguous run of the command line
      * Ok / Err => the caller's scope is restored and the representation invariant holds"""
    from . import lemmas
    from mirsym.models import rd
    prog = tok.load_program(build, "none")
    models = dict(tok.TOK_MODELS)
    lemmas.install_det(models)
    ex = tok.new_exec(prog, models=models, step_budget=2000000)
    n = job["n"]
    mask = job["present"]
    out = {"stats": None, "cex": [], "inconclusive": [], "samples": [], "nontrivial": 0, "classes": {}, "obligations": 0}
    L = prog.layout

    def harness(ex):
        words = [tok.Word("word", val=ex.fresh("w", "int")) for _ in range(n)]
        items = tok.words_to_items(ex, words)
        # base-3 digits of the mask: 0 = consumed, 1 = unparsed, 2 = unparsed and carrying a Conflict mark (the
        # losing branch of a choice would have taken it) - still present
        digits = [(mask // 3 ** i) % 3 for i in range(n)]
        present = [d != 0 for d in digits]

        def ist_of(d):
            if d == 0:
                return Adt("ItemState", L.variant_index("ItemState", "Parsed"), ())
            if d == 1:
                return Adt("ItemState", L.variant_index("ItemState", "Unparsed"), ())
            return Adt("ItemState", L.variant_index("ItemState", "Conflict"), (0,))
        ist = Seq(tuple(ist_of(d) for d in digits))
        lo = tok.choose_free(ex, n + 1, "lo")
        hi = lo + tok.choose_free(ex, n + 1 - lo, "hi")
        rem = sum(1 for i in range(n) if present[i] and lo <= i < hi)
        fields = {"items": Seq(tuple(items)), "item_state": ist, "remaining": rem, "current": NONE,
                  "path": Seq(()), "scope": Adt("Range", 0, (lo, hi)), "comp": NONE}
        st = Adt("State", 0, tuple(fields[f] for f in L.adts["State"]["fields"]))
        inner = lemmas.det_parser(ex, n)
        ref = Ref(Cell(st, "state"), ())
        w = Adt("ParseAdjacent", 0, (inner,))
        r = ex.call(parse_callee("<P as Parser<T>>::eval"), [Ref(Cell(w, "adj"), ()), ref])
        return (r, present, rd(ref), (lo, hi), inner)

    def on_path(ex, r):
        out["obligations"] += 1
        out["nontrivial"] += 1
        if r.kind != "ok":
            out["cex"].append({"kind": "lemma-panics", "n": n, "present": mask, "info": str(r.info)})
            return
        res, pre, post, (lo, hi), inner = r.value
        postp = lemmas.present_vec(ex, post)
        f = lemmas.fields_of(ex, post)
        desc = "n=%d states=%s (0 consumed, 1 unparsed, 2 conflict-marked) scope=%d..%d inner claims %s, rule %s" % (
            n, "".join(str((mask // 3 ** i) % 3) for i in range(n)), lo, hi, list(inner.fields[0]), inner.fields[1])
        cls = "ok" if res.var == 0 else "err"
        out["classes"][cls] = out["classes"].get(cls, 0) + 1
        bad = None
        plo, phi = f["scope"].fields
        if (plo, phi) != (lo, hi):
            bad = "scope %r..%r after the call, %d..%d before" % (plo, phi, lo, hi)
        elif f["remaining"] != sum(1 for i in range(n) if postp[i] and lo <= i < hi):
            bad = "`remaining` is %r, the ledger says %d" % (f["remaining"], sum(1 for i in range(n) if postp[i] and lo <= i < hi))
        taken = [i for i in range(n) if pre[i] and not postp[i]]
        if bad is None and cls == "ok" and taken and taken != list(range(taken[0], taken[-1] + 1)):
            bad = "Ok after consuming the non-contiguous items %s" % taken
        if bad is None and any(not (lo <= i < hi) for i in taken):
            bad = "consumed items %s outside the scope" % taken
        # completeness: a complete contiguous block of present items inside the scope is accepted as a whole
        S = list(inner.fields[0])
        if bad is None and S and inner.fields[1] == "all-of-S" and S == list(range(S[0], S[-1] + 1)) \
                and all(pre[i] and lo <= i < hi for i in S):
            if cls != "ok":
                bad = "the complete contiguous block %s of unconsumed items is rejected" % S
            elif taken != S:
                bad = "the complete contiguous block %s is offered, items %s are consumed" % (S, taken)
        if bad:
            out["cex"].append({"kind": "lemma-adjacent", "n": n, "present": mask, "info": "%s: %s" % (desc, bad)})
        elif len(out["samples"]) < 1 and cls == "ok" and len(taken) >= 2:
            out["samples"].append({"lemma": desc, "consumed": taken})
    try:
        ex.explore(harness, on_path, max_paths=500000)
    except (Unmodelled, BoundExceeded, ExecError) as e:
        out["inconclusive"].append("%s %s [%s]" % (type(e).__name__, e, "/".join(ex.callstack[-3:])))
    out["stats"] = dict(ex.stats)
    out["models_used"] = dict(ex.model_hits)
    out["fn_hits"] = dict(ex.fn_hits)
    return out


def run_job(job, build):
    if job.get("kind") == "lemma":
        return run_lemma_job(job, build)
    return run_tok_job(job, build, CORPUS, Oracle(), max_validate=150)


def finish(results, jobs, build, out, tier, seed, wall):
    from . import framework as fw
    byid = {j["id"]: j for j in jobs}
    lem = [r for r in results if byid[r["job"]].get("kind") == "lemma"]
    results = [r for r in results if byid[r["job"]].get("kind") != "lemma"]
    ljobs = [j for j in jobs if j.get("kind") == "lemma"]
    jobs = [j for j in jobs if j.get("kind") != "lemma"]
    ev = _finish_corpus(results, jobs, build, out, tier, seed, wall)
    st = fw.merge_stats(lem)
    for r in lem:
        if r.get("error"):
            out.inconc("job %s crashed: %s" % (r["job"], r["error"]))
        for w in r.get("inconclusive", []):
            out.inconc("%s: %s" % (r["job"], w))
        for c in r.get("cex", []):
            # kernel-level counterexample: the state is reachable (any subset of items may have been consumed
            # by enclosing parsers), the inner parser is a model of a user parser, so there is no argv to replay
            out.violation("%s:%d:%d" % (c["kind"], c["n"], c["present"]), "ParseAdjacent::eval %s" % c["info"], c)
    cov = ev["coverage"]
    cov["lemma"] = {"jobs": len(ljobs), "paths": st["paths"], "items": "1..=%d" % (4 if tier == "quick" else 5),
                    "pre_states": "every assignment of {consumed, unparsed, conflict-marked} to the items x every scope", "inner_parser": "every claimed index set x rules " + ", ".join(__import__("props.lemmas", fromlist=["x"]).DET_RULES),
                    "outcomes": fw.merge_counts(lem, "classes")}
    cov["evaluations"] += st["queries"]
    cov["states"] += st["paths"]
    cov["transitions"] += st["decisions"]
    cov["distinct_nontrivial"] += sum(r.get("nontrivial", 0) for r in lem)
    cov["jobs"] = len(jobs) + len(ljobs)
    cov["functions_encoded"] = sorted(set(cov["functions_encoded"]) | set(fw.merge_counts(lem, "fn_hits")))
    ev["assumptions"] = list(ev["assumptions"]) + [
        "lemma jobs: the inner parser of the adjacent group is a deterministic function of the state it is shown (claims a fixed index set when present and in scope; four success rules); parsers whose consumption depends on history other than the state are outside the lemma",
    ]
    return ev


def _finish_corpus(results, jobs, build, out, tier, seed, wall):
    from . import framework as fw
    ev = finish_tok(PROP, results, jobs, build, out, tier, seed, wall, Oracle(), CORPUS,
                    {"argv_words": "0..=%d (a complete --point block is 3 words, a complete --rect block 3 words with attached values or 5 with separate ones)" % (3 if tier == "quick" else 4), "grammars": GRAMMARS})
    ev["coverage"]["scan_classes"] = fw.merge_counts(results, "scan")
    ev["coverage"]["soundness_obligations"] = sum(r.get("soundness_obligations", 0) for r in results)
    return ev
