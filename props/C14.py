"""C14 - dynamic completion offers real, visible, applicable candidates.

run_subparser is executed from the full-feature MIR in completion mode (State.comp = Some, output
revision 0) on argument vectors made of 0-2 *symbolic* words followed by one *concrete* word being
typed (the set TYPED below: empty, `-`, `--`, `--<prefix>`, an exact short name, a command prefix,
`--name=`, a word that matches nothing).  Complete::complete, arg_matches / cmd_matches and
render_test are executed from MIR (the typed word is concrete, so their string code runs on real
text); the candidate table is parsed back from render_test's output.
  outcome       the result is ParseFailure::Completion on every path
  soundness     every candidate with a replacement is a visible long/short name (in its preferred
                spelling) of the level entered by the symbolic prefix or of a level enclosing it, that
                matches the typed word, or a subcommand name of that level extending the typed word,
                or the `--` separator hint; names of hidden items and of commands not entered never
                appear
  completeness  for a freshly typed `--prefix` / `-` / empty word after a prefix made only of complete
                occurrences of declared items: every visible named item of the active level whose
                long name extends the prefix and which is not on the line yet is offered
"""
import z3

from mirsym.engine import parse_callee, Unmodelled, ExecError, BoundExceeded, Panic, Infeasible
from mirsym.values import *
from mirsym.models import NONE, SOME, rd, rda
from mirsym import fmtmodels as FM
from mirsym import textmodels as TM
from spec import grammar as G
from . import tok, C10, C12
from .tokdiff import spec_env
from .framework import Replayer
from .corpus import CORPUS

PROP = "C14"
FEATURE_SETS = ("full",)
GRAMMARS = ["g1", "c1", "p1", "hd", "c2", "f1", "f2", "x1", "ka"]
# values returned by the user completer of a grammar's argument: {grammar: (short name of the argument, values)}
COMPLETER = {"x1": ("d", ["1", "2"]), "ka": ("w", ["1", "2"])}
TYPED = ["", "-", "--", "--a", "--al", "--be", "--n", "--zz", "-a", "-b", "-n", "a", "ad", "ax", "r", "m", "c", "zz", "--st", "--beta=", "-b="]


def typed_word(ex, text):
    """tok.Word-like objects with CONCRETE strings for the word being typed"""
    L = ex.prog.layout
    vi = lambda n: L.variant_index("Arg", n)
    if text == "--":
        return [Adt("Arg", vi("PosWord"), ("--",))], "dd"
    if text.startswith("--"):
        body = text[2:]
        if "=" in body:
            n, v = body.split("=", 1)
            return [Adt("Arg", vi("Long"), (n, True, text)), Adt("Arg", vi("ArgWord"), (v,))], "long="
        return [Adt("Arg", vi("Long"), (body, False, text))], "long"
    if text.startswith("-") and len(text) >= 2:
        c = ord(text[1])
        if len(text) > 2 and text[2] == "=":
            return [Adt("Arg", vi("Short"), (c, True, text)), Adt("Arg", vi("ArgWord"), (text[3:],))], "short="
        return [Adt("Arg", vi("Short"), (c, False, text))], "short"
    return [Adt("Arg", vi("Word"), (text,))], "word"


def comp_models():
    models = C12.help_models()
    models.pop("Doc::to_completion", None)  # executed from MIR here (first line of the help, monochrome)
    return models


def level_at(level, chain):
    for nm in chain:
        nxt = None
        for f in level.fields:
            if isinstance(f, G.Cmds):
                for c in f.cmds:
                    if c.names[0] == nm:
                        nxt = c
        level = nxt.level
    return level


def levels_on(level, chain):
    out = [level]
    for nm in chain:
        nxt = None
        for f in level.fields:
            if isinstance(f, G.Cmds):
                for c in f.cmds:
                    if c.names[0] == nm:
                        nxt = c
        level = nxt.level
        out.append(level)
    return out


def preferred(f):
    if f.longs:
        return "--" + f.longs[0]
    return "-" + chr(f.shorts[0])


def matches_typed(f, typed):
    if typed in ("", "-"):
        return True
    if typed.startswith("--"):
        return bool(f.longs) and f.longs[0].startswith(typed[2:])
    if typed.startswith("-") and len(typed) == 2:
        return bool(f.shorts) and chr(f.shorts[0]) == typed[1]
    return False


def run_job(job, build):
    prog = tok.load_program(build, "full")
    ex = tok.new_exec(prog, models=comp_models(), step_budget=2500000)
    TM.install_hooks(ex)
    ex.debug_repr = C12.stable_repr
    g = CORPUS[job["grammar"]]
    shape = tuple(job["shape"])
    typed = job["typed"]
    L = prog.layout
    out = {"stats": None, "cex": [], "inconclusive": [], "samples": [], "nontrivial": 0, "classes": {}, "obligations": 0, "validate": []}

    def harness(ex):
        parser = ex.call(parse_callee(g.builder), [])
        words = tok.gen_words_sharded(ex, sum(tok.FORM_ITEMS[f] for f in shape), g.decl, shape)
        ex.c14_words = words
        items = tok.words_to_items(ex, words)
        last, kind = typed_word(ex, typed)
        fl = L.adts["Complete"]["fields"]
        d = {"comps": Seq(()), "output_rev": 0, "no_pos_ahead": False}
        comp = SOME(Adt("Complete", 0, tuple(d[f] for f in fl)))
        st = tok.mk_state(ex, items + last, comp=comp)
        # State::construct keeps a trailing `--` unconsumed in completion mode
        if kind == "dd" and not any(w.form == "dd" for w in words):
            f = {n: v for n, v in zip(L.adts["State"]["fields"], st.fields)}
            un = Adt("ItemState", L.variant_index("ItemState", "Unparsed"), ())
            f["item_state"] = Seq(f["item_state"].items[:-1] + (un,))
            f["remaining"] = f["remaining"] + 1
            st = Adt("State", 0, tuple(f[n] for n in L.adts["State"]["fields"]))
        res = ex.call(parse_callee("OptionParser::run_subparser"), [Ref(Cell(parser, "parser"), ()), Ref(Cell(st, "state"), ())])
        return (words, res)

    def on_path(ex, r):
        words = ex.c14_words
        if ex.pc:
            out["nontrivial"] += 1
        m0 = None

        def argv_now():
            m = ex.model()
            return tok.Concretizer(ex, m).argv(words) + [typed]
        if r.kind != "ok":
            out["cex"].append({"kind": "completion-panics", "grammar": g.name, "argv": argv_now(), "why": str(r.info)})
            return
        words, res = r.value
        cls, payload = tok.classify(ex, res)
        out["classes"][cls] = out["classes"].get(cls, 0) + 1
        out["obligations"] += 1
        if cls != "completion":
            out["cex"].append({"kind": "not-a-completion", "grammar": g.name, "argv": argv_now(), "why": "outcome class %s" % cls, "expect_class": "completion"})
            return
        text = rda(payload)
        if not isinstance(text, str):
            out["inconclusive"].append("completion text is not concrete")
            return
        cands = []
        lines = text.split("\n")
        if "\t" not in text:
            # single replacement / echo of the typed word
            if text.strip() and text.strip() != typed:
                cands.append((text.strip(), text.strip()))
        else:
            for ln in lines:
                if not ln.strip() or "\t" not in ln:
                    continue
                parts = ln.split("\t")
                cands.append((parts[0], parts[1] if len(parts) > 1 else ""))
        items = G.items_of_words(words)
        env = spec_env(ex)

        def oracle(e):
            if g.level is None:
                return None
            chain = C10.entered_chain(e, env, g.level, items)
            lv = levels_on(g.level, chain)
            active = lv[-1]
            problems = []
            allowed = {}
            for depth, level in enumerate(lv):
                for f in C10.level_named(level):
                    if getattr(f, "hidden", False):
                        continue
                    allowed[preferred(f)] = f
            # subcommand names of the active level *or of a level enclosing it* (the property allows both)
            cmds_here = []
            for level in lv:
                for f in level.fields:
                    if isinstance(f, G.Cmds):
                        for c in f.cmds:
                            cmds_here.append(c)
            comp = COMPLETER.get(g.name)
            for subst, pretty in cands:
                if subst == "":
                    continue  # metavariable placeholder
                if subst == "--":
                    continue
                if comp and subst in comp[1]:
                    # a value produced by the user's completer: only while that argument's value is being typed
                    prev = items[-1] if items else None
                    f_arg = [f for f in C10.level_named(active) if f.shorts and chr(f.shorts[0]) == comp[0]]
                    if prev is None or prev.kind not in ("short", "long") or prev.adj or not f_arg or not G.name_match(e, env, f_arg[0], prev):
                        problems.append("completer value %r offered although the value of -%s is not being typed" % (subst, comp[0]))
                    continue
                if subst in allowed:
                    if not matches_typed(allowed[subst], typed):
                        problems.append("candidate %s does not match the typed word %r" % (subst, typed))
                    continue
                cm = [c for c in cmds_here if c.names[0] == subst]
                if cm:
                    c = cm[0]
                    if not (c.names[0].startswith(typed) or typed in c.names[1:]):
                        problems.append("command %s does not extend the typed word %r" % (subst, typed))
                    continue
                problems.append("candidate %r is not a visible name of the active or an enclosing level (entered: %r)" % (subst, chain))
            # completeness on clean prefixes
            clean = True
            given = set()
            i = 0
            level = g.level
            scan_levels = [g.level]
            k = 0
            while k < len(items):
                it = items[k]
                hit = None
                if it.kind in ("short", "long"):
                    for f in C10.level_named(scan_levels[-1]):
                        if G.name_match(e, env, f, it):
                            hit = f
                            break
                    if hit is None:
                        clean = False
                        break
                    if id(hit) in given and not (hit.kind == "arg" and hit.arity in ("many", "some", "last")) and hit.kind != "count":
                        clean = False  # a single-use item given twice: the prefix is not a prefix of any sentence
                        break
                    given.add(id(hit))
                    if hit.kind == "arg":
                        if k + 1 < len(items) and items[k + 1].kind in ("word", "argword") and e.branch(env.valid(items[k + 1].val), "c14-valid"):
                            k += 2
                            continue
                        clean = False
                        break
                    if it.adj:
                        clean = False
                        break
                    k += 1
                    continue
                if it.kind == "word":
                    nxt = None
                    for f in scan_levels[-1].fields:
                        if isinstance(f, G.Cmds):
                            for c in f.cmds:
                                if e.branch(z3.Or(*[it.val == env.intern(nm) for nm in c.names]), "c14-cmd"):
                                    nxt = c
                    if nxt is None:
                        clean = False
                        break
                    scan_levels.append(nxt.level)
                    given = set()
                    k += 1
                    continue
                clean = False
                break
            if clean and (typed in ("", "-", "--") or (typed.startswith("--") and "=" not in typed)):
                for f in C10.level_named(active):
                    if getattr(f, "hidden", False) or not f.longs:
                        continue
                    if getattr(f, "in_adjacent", False):
                        continue  # the completeness clause exempts members of adjacent groups
                    if id(f) in given:
                        continue
                    if preferred(f) == typed and text.strip() == typed:
                        continue  # the whole name is typed already: the single candidate is the typed word itself
                    if matches_typed(f, typed) and preferred(f) not in [c[0] for c in cands]:
                        problems.append("visible item %s extends %r and is not on the line, but is not offered" % (preferred(f), typed))
            return problems

        def leaf(e, problems):
            if problems:
                m = e.model()
                argv = tok.Concretizer(e, m).argv(words) + [typed]
                out["cex"].append({"kind": "bad-candidates", "grammar": g.name, "argv": argv, "why": "; ".join(problems[:3]), "candidates": cands})
        ex.sub_explore(oracle, leaf)
        if len(out["validate"]) < 40:
            out["validate"].append((g.name, argv_now(), text))
        if len(out["samples"]) < 1:
            out["samples"].append({"grammar": g.name, "argv": argv_now(), "candidates": cands})
    try:
        ex.explore(harness, on_path, max_paths=100000)
    except (Unmodelled, BoundExceeded, ExecError) as e:
        out["inconclusive"].append("%s %s [%s]" % (type(e).__name__, e, "/".join(ex.callstack[-3:])))
    out["stats"] = dict(ex.stats)
    out["models_used"] = dict(ex.model_hits)
    out["fn_hits"] = dict(ex.fn_hits)
    # native validation of the completion text (one concrete argv per path) and confirmation of counterexamples
    rp = Replayer(build["sets"]["full"]["replay"])
    val = out.pop("validate")
    if val:
        got = rp.run([(gn, ["--bpaf-complete-rev=0"] + argv, {}) for gn, argv, _ in val])
        agree = 0
        for (gn, argv, text), (cls, pay) in zip(val, got):
            import ast
            try:
                ntext = ast.literal_eval(pay) if cls == "completion" else None
            except Exception:  # noqa: BLE001
                ntext = None
            if cls == "completion" and ntext == text:
                agree += 1
            else:
                out["inconclusive"].append("ENCODING-MISMATCH %s argv=%r mirsym completion %r native %s %r" % (gn, argv, text, cls, pay[:200]))
        out["validated"] = len(val)
        out["validated_agree"] = agree
    if out["cex"]:
        got = rp.run([(c["grammar"], ["--bpaf-complete-rev=0"] + c["argv"], {}) for c in out["cex"]])
        for c, (cls, pay) in zip(out["cex"], got):
            c["native"] = [cls, pay[:600]]
            if c["kind"] == "not-a-completion":
                c["reproduced"] = cls != "completion"
            elif c["kind"] == "completion-panics":
                c["reproduced"] = cls == "panic"
            else:
                # the candidate table is recomputed from the native text
                c["reproduced"] = cls == "completion" and all((s in pay) for s, _ in c["candidates"] if s)
    return out


def typed_words(g, tier):
    """the fixed list plus words derived from the grammar's own names: short prefixes of every command name
    and alias, each of them followed by a letter that continues no name, prefixes of long names, exact shorts"""
    out = list(TYPED)

    def add(w):
        if w not in out:
            out.append(w)
    for nm in g.cmd_names:
        for k in (1, 2):
            if len(nm) >= k:
                add(nm[:k])
                add(nm[:k] + "q")
        add(nm)
    for l in g.all_longs[: (3 if tier == "quick" else 8)]:
        add("--" + l[:1])
        add("--" + l[:2] + "q")
        add("--" + l)
    for c in g.all_shorts[: (3 if tier == "quick" else 8)]:
        add("-" + chr(c))
    if g.name in COMPLETER:
        for v in ("1", "12", "7"):
            add(v)
    return out


def make_jobs(tier, seed, build):
    jobs = []
    nmax = 2 if tier == "quick" else 3
    for gname in GRAMMARS:
        g = CORPUS[gname]
        for shape in tok.all_shapes_by_words(nmax, g.decl, full_upto=2):
            if "dd" in shape:
                continue
            for typed in typed_words(g, tier):
                jobs.append({"id": "%s:%s:%s" % (gname, ",".join(shape), typed), "grammar": gname, "shape": shape, "typed": typed})
    return jobs


def finish(results, jobs, build, out, tier, seed, wall):
    from . import framework as fw
    st = fw.merge_stats(results)
    samples = []
    for r in results:
        if r.get("error"):
            out.inconc("job %s crashed: %s" % (r["job"], r["error"]))
        for w in r.get("inconclusive", []):
            out.inconc("%s: %s" % (r["job"], w))
        for s in r.get("samples", [])[:1]:
            if len(samples) < 12:
                samples.append(s)
        for c in r.get("cex", []):
            what = "%s on grammar %s argv=%r: %s (native: %s)" % (c["kind"], c["grammar"], c["argv"], c["why"], c.get("native"))
            key = "%s:%s:%s" % (c["kind"], c["grammar"], " ".join(c["argv"]))
            if c["kind"] == "bad-candidates" and "=" in c["argv"][-1] and "does not match the typed word" in c["why"] or \
               (c["kind"] == "bad-candidates" and "=" in c["argv"][-1] and "does not extend the typed word" in c["why"]):
                # role of the known finding: `name=` typed for an item that is not available any more
                key = "attached-value-of-unavailable-item-completed-as-empty-word"
            if c.get("reproduced"):
                out.violation(key, what, c)
            else:
                out.inconc("NONREPRO " + what)
    nmax = 2 if tier == "quick" else 3
    cov = {
        "evaluations": st["queries"] + sum(r.get("obligations", 0) for r in results),
        "distinct_nontrivial": sum(r.get("nontrivial", 0) for r in results),
        "rule": "one case = one feasible path of run_subparser in completion mode over a symbolic prefix followed by a concrete typed word",
        "samples": samples,
        "states": max(st["paths"], 1),
        "transitions": max(st["decisions"], 1),
        "traces_validated_against_impl": sum(r.get("validated_agree", 0) for r in results),
        "translator_validation": {"cases": sum(r.get("validated", 0) for r in results), "agree": sum(r.get("validated_agree", 0) for r in results)},
        "exhaustive": not out.inconclusive,
        "paths": st["paths"],
        "queries": {"total": st["queries"], "sat": st["sat"], "unsat": st["unsat"], "unknown": st["unknown"]},
        "solver_time_s": st["solver_s"],
        "outcome_classes": fw.merge_counts(results, "classes"),
        "bounds": {"largest_size": (tok.REDUCED_NOTE if tier != "quick" else "all forms"), "prefix_words": "0..=%d symbolic words (no `--`)" % nmax, "typed_words": TYPED, "typed_words_derived": "per grammar: 1- and 2-letter prefixes of every command name and alias, each also followed by a letter that continues no name; first letter / two letters + q / the whole of long names; exact short names", "grammars": GRAMMARS},
        "jobs": len(jobs),
        "functions_encoded": sorted(fw.merge_counts(results, "fn_hits")),
        "models_used": fw.merge_counts(results, "models_used"),
        "cuts": {"from_os_str::parse_os_str": "validity predicate", "State::construct / marker removal": "the state is built as construct + ArgScanner leave it (completion marker removed, comp = Some(rev 0))"},
        "repo_src_hash": build.get("repo_hash"),
    }
    assumptions = [
        "the word being typed ranges over a finite set of concrete words; the words before it are symbolic (token layer)",
        "completer values (`complete`), adjacent groups and non-UTF-8 last words are not in the corpus",
        "completeness is asserted only after prefixes consisting of complete occurrences of declared items (and command names)",
    ]
    return {"tier": tier, "seed": seed, "level": "model_checking", "coverage": cov, "assumptions": assumptions}
