"""Token layer shared by the item-level properties (C01, C03, C05-C10, C18-C20).

* symbolic item vectors: the image of the tokenizer (`wf_tokens`, DESIGN 2.3) generated word by
  word; the *shape* of each word is a solver-checked choice, every name / char / value id /
  validity bit is a free symbolic variable
* the State value `State::construct` ends with (checked separately by the text-layer construct
  harness)
* the cuts of this layer: Message::render / render_help / parse_os_str / env::var_os
* concretisation of a solver model back into an argv for native replay
"""
import z3

from mirsym.engine import Program, Exec, parse_callee, Unmodelled, ExecError, Panic
from mirsym.models import MODELS, model, NONE, SOME, OK, ERR, rda, rd
from mirsym.values import *

FOREIGN_BASE = 1000000  # ids >= FOREIGN_BASE never denote an interned (declared) string

VALID = z3.Function("valid_u32", z3.IntSort(), z3.BoolSort())
ENVSET = z3.Function("env_set", z3.IntSort(), z3.BoolSort())
ENVVAL = z3.Function("env_val", z3.IntSort(), z3.IntSort())
U32OF = z3.Function("u32_of", z3.IntSort(), z3.BitVecSort(32))  # numeric value of a valid text
NONUTF8 = z3.Function("non_utf8", z3.IntSort(), z3.BoolSort())  # the text is not valid UTF-8 (consulted by env::var only)


def is_u32_text(s):
    t = s[1:] if s.startswith("+") else s
    return t.isdigit() and t.isascii() and int(t) < 2 ** 32


def intern_hook(ex, s, i):
    ok = is_u32_text(s)
    ex.add_axiom(VALID(z3.IntVal(i)) == z3.BoolVal(ok))
    if ok:
        ex.add_axiom(U32OF(z3.IntVal(i)) == z3.BitVecVal(int(s), 32))


# ------------------------------------------------------------------------------------------------
# program loading

_prog_cache = {}


def load_program(build, fs):
    key = (build["out"], fs)
    p = _prog_cache.get(key)
    if p is None:
        ent = build["sets"][fs]
        p = Program()
        p.crates = ("vharness",)
        p.load(ent["bpaf_mir"], ent["bpaf_json"], "")
        p.load(ent["h_mir"], ent["h_json"], "vharness")
        _prog_cache[key] = p
    return p


# ------------------------------------------------------------------------------------------------
# cuts of the token layer (each one is reported in evidence)

TOK_MODELS = dict(MODELS)
CUTS = {
    "from_os_str::parse_os_str": "FromStr conversion replaced by an uninterpreted validity predicate valid_u32(id) and the identity on ids",
    "Message::render": "error text rendering replaced by ParseFailure::Stderr(<message value>) (ParseFailure payloads pass through)",
    "meta_help::render_help": "help rendering replaced by an opaque document carrying (path, info, meta)",
    "env::var_os": "environment replaced by symbolic functions env_set(name)/env_val(name)",
}


def tmodel(*keys):
    def deco(fn):
        for k in keys:
            TOK_MODELS[k] = fn
        return fn
    return deco


@tmodel("from_os_str::parse_os_str", "parse_os_str")
def m_parse_os_str(ex, c, args):
    os = rda(args[0])
    if getattr(ex, "conv", "u32") == "string":
        # grammars whose values are OsString: the conversion is the identity and cannot fail
        return OK(os)
    t = ex.str_term(os)
    if ex.branch(VALID(t), "valid"):
        return OK(U32OF(t))
    return ERR(Opaque("parse_err", (os,)))


@tmodel("Message::render")
def m_render(ex, c, args):
    msg = args[0]
    pf = ex.prog.layout.variant_index("Message", "ParseFailure")
    ex.cut_log.append(("render", msg))
    if msg.var == pf:
        return msg.fields[0]
    st = ex.prog.layout.variant_index("ParseFailure", "Stderr")
    return Adt("ParseFailure", st, (Opaque("rendered", (msg,)),))


@tmodel("meta_help::render_help", "render_help")
def m_render_help(ex, c, args):
    path = rda(args[0])
    ex.cut_log.append(("render_help", path))
    return Opaque("help", (path, rda(args[1])))


@tmodel("env::var_os", "var_os")
def m_var_os(ex, c, args):
    name = rda(args[0])
    t = ex.str_term(name)
    declared = getattr(ex, "declared_env", None)
    if declared is not None and isinstance(name, str) and name not in declared:
        ex.notes.append(("undeclared-env", name))
    if ex.branch(ENVSET(t), "env"):
        return SOME(SymStr(ENVVAL(t)))
    return NONE


@tmodel("env::var", "var")
def m_var(ex, c, args):
    """std::env::var: the variable as var_os sees it, refused (VarError::NotUnicode) when the text is not UTF-8;
    a text that is not UTF-8 converts to nothing but OsString"""
    name = rda(args[0])
    t = ex.str_term(name)
    declared = getattr(ex, "declared_env", None)
    if declared is not None and isinstance(name, str) and name not in declared:
        ex.notes.append(("undeclared-env", name))
    if ex.branch(ENVSET(t), "env"):
        if ex.branch(NONUTF8(ENVVAL(t)), "env-utf8"):
            if getattr(ex, "conv", "u32") != "string":
                ex.assume(z3.Not(VALID(ENVVAL(t))))
            return ERR(Opaque("VarError::NotUnicode", (SymStr(ENVVAL(t)),)))
        return OK(SymStr(ENVVAL(t)))
    return ERR(Opaque("VarError::NotPresent", ()))


@tmodel("Doc::to_completion")
def m_to_completion(ex, c, args):
    return NONE


# ------------------------------------------------------------------------------------------------
# symbolic items

class Word:
    """one argv word and the item(s) it tokenizes to"""
    __slots__ = ("form", "name", "val", "os", "first")

    def __init__(self, form, name=None, val=None, os=None):
        self.form = form  # 'word' 'short' 'short=' 'shortv' 'long' 'long=' 'dd' 'pos'
        self.name = name  # char term / id term
        self.val = val  # id term
        self.os = os


FORMS = ("word", "short", "short=", "shortv", "long", "long=", "dd", "pos")
FORM_ITEMS = {"word": 1, "short": 1, "short=": 2, "shortv": 2, "long": 1, "long=": 2, "dd": 1, "pos": 1}


class Decl:
    """what the tokenizer needs to know about a grammar (declared short flags / args)"""

    def __init__(self, short_flags=(), short_args=()):
        self.short_flags = [ord(c) for c in short_flags]
        self.short_args = [ord(c) for c in short_args]


def gen_words(ex, n, decl, allow_dd=True, forms=None):
    """generate a symbolic argv whose token image has exactly n items.  Returns list of Word."""
    words = []
    k = 0
    pos_only = False
    while k < n:
        room = n - k
        if pos_only:
            w = Word("pos", val=ex.fresh("pw", "int"), os=None)
            ex.assume(w.val >= 0)
            words.append(w)
            k += 1
            continue
        cands = []
        for f in (forms or FORMS):
            if f == "pos":
                continue
            if f == "dd" and not allow_dd:
                continue
            if FORM_ITEMS[f] > room:
                continue
            if f == "shortv" and not decl.short_args:
                continue
            cands.append(f)
        i = ex.choose([True if len(cands) == 1 else z3.BoolVal(True)] * len(cands), "form") if len(cands) > 1 else 0
        f = cands[i]
        if f == "word":
            w = Word("word", val=ex.fresh("w", "int"))
            ex.assume(w.val >= 0)
        elif f in ("short", "short=", "shortv"):
            c = ex.fresh("c", 32)
            # a char that is neither '-' nor '=' (those never become short names)
            ex.assume(z3.And(c != ord("-"), c != ord("="), z3.ULT(c, 0x110000), z3.UGT(c, 0x20),
                             z3.Or(z3.ULT(c, 0xD800), z3.UGT(c, 0xDFFF))))
            w = Word(f, name=c)
            if f != "short":
                w.val = ex.fresh("v", "int")
                ex.assume(w.val >= 0)
            if f == "shortv":
                # `-cVAL` is an attached value only when c is a declared short argument and not a
                # declared short flag (disambiguate_short); the value is not empty
                ex.assume(z3.Or(*[c == x for x in decl.short_args]))
                ex.assume(z3.And(*[c != x for x in decl.short_flags]) if decl.short_flags else True)
                ex.assume(w.val != ex.intern(""))
        elif f in ("long", "long="):
            w = Word(f, name=ex.fresh("l", "int"))
            ex.assume(w.name >= 0)
            if f == "long=":
                w.val = ex.fresh("v", "int")
                ex.assume(w.val >= 0)
        elif f == "dd":
            w = Word("dd")
            pos_only = True
        words.append(w)
        k += FORM_ITEMS[f]
    # the original OS string of a named item is a foreign id (never equal to a declared word)
    for j, w in enumerate(words):
        if w.form in ("short", "short=", "shortv", "long", "long="):
            w.os = z3.IntVal(FOREIGN_BASE * 10 + j)
    return words


def choose_free(ex, k, tag):
    """k-way choice with no constraint attached (every option feasible)"""
    if k == 1:
        return 0
    sel = ex.fresh(tag, "int")
    ex.assume(z3.And(sel >= 0, sel < k))
    return ex.choose([sel == i for i in range(k)], tag)


def words_to_items(ex, words):
    """the tokenizer's image of the words: list of Arg values"""
    L = ex.prog.layout
    vi = lambda n: L.variant_index("Arg", n)
    items = []
    for w in words:
        f = w.form
        if f == "word":
            items.append(Adt("Arg", vi("Word"), (SymStr(w.val),)))
        elif f == "pos":
            items.append(Adt("Arg", vi("PosWord"), (SymStr(w.val),)))
        elif f == "dd":
            items.append(Adt("Arg", vi("PosWord"), ("--",)))
        elif f == "short":
            items.append(Adt("Arg", vi("Short"), (w.name, False, SymStr(w.os))))
        elif f == "short=":
            items.append(Adt("Arg", vi("Short"), (w.name, True, SymStr(w.os))))
            items.append(Adt("Arg", vi("ArgWord"), (SymStr(w.val),)))
        elif f == "shortv":
            items.append(Adt("Arg", vi("Short"), (w.name, True, SymStr(w.os))))
            items.append(Adt("Arg", vi("Word"), (SymStr(w.val),)))
        elif f == "long":
            items.append(Adt("Arg", vi("Long"), (SymStr(w.name), False, SymStr(w.os))))
        elif f == "long=":
            items.append(Adt("Arg", vi("Long"), (SymStr(w.name), True, SymStr(w.os))))
            items.append(Adt("Arg", vi("ArgWord"), (SymStr(w.val),)))
    return items


def gen_words_sharded(ex, n, decl, shard_forms, allow_dd=True):
    """like gen_words but the form of each word is fixed by the caller (sharding across workers);
    shard_forms is a tuple of form names whose item counts add up to n"""
    words = []
    pos_only = False
    for f in shard_forms:
        if pos_only and f != "pos":
            raise ValueError("only 'pos' may follow 'dd'")
        if f == "pos":
            w = Word("pos", val=ex.fresh("pw", "int"))
            ex.assume(w.val >= 0)
        elif f == "word":
            w = Word("word", val=ex.fresh("w", "int"))
            ex.assume(w.val >= 0)
            ex.assume(w.val != ex.intern("--"))  # that would be the separator
        elif f in ("short", "short=", "shortv"):
            c = ex.fresh("c", 32)
            ex.assume(z3.And(c != ord("-"), c != ord("="), z3.ULT(c, 0x110000), z3.UGT(c, 0x20),
                             z3.Or(z3.ULT(c, 0xD800), z3.UGT(c, 0xDFFF))))
            w = Word(f, name=c)
            if f != "short":
                w.val = ex.fresh("v", "int")
                ex.assume(w.val >= 0)
            if f == "shortv":
                if not decl.short_args:
                    from mirsym.engine import Infeasible
                    raise Infeasible()
                ex.assume(z3.Or(*[c == x for x in decl.short_args]))
                if decl.short_flags:
                    ex.assume(z3.And(*[c != x for x in decl.short_flags]))
                ex.assume(w.val != ex.intern(""))
        elif f in ("long", "long="):
            w = Word(f, name=ex.fresh("l", "int"))
            ex.assume(w.name >= 0)
            if f == "long":
                ex.assume(w.name != ex.intern(""))  # `--` alone is the separator, not a long name
            if f == "long=":
                w.val = ex.fresh("v", "int")
                ex.assume(w.val >= 0)
        elif f == "dd":
            w = Word("dd")
            pos_only = True
        else:
            raise ValueError(f)
        words.append(w)
    for j, w in enumerate(words):
        if w.form in ("short", "short=", "shortv", "long", "long="):
            w.os = z3.IntVal(FOREIGN_BASE * 10 + j)
    return words


def all_shapes(n, decl, allow_dd=True):
    """every sequence of word forms whose token image has exactly n items"""
    out = []

    def rec(prefix, left, pos_only):
        if left == 0:
            out.append(tuple(prefix))
            return
        if pos_only:
            rec(prefix + ["pos"], left - 1, True)
            return
        for f in FORMS:
            if f == "pos":
                continue
            if f == "dd" and not allow_dd:
                continue
            if FORM_ITEMS[f] > left:
                continue
            if f == "shortv" and not decl.short_args:
                continue
            rec(prefix + [f], left - FORM_ITEMS[f], f == "dd")
    rec([], n, False)
    return out


REDUCED_FORMS = ("word", "short", "long=", "dd", "pos")
REDUCED_NOTE = "sequences of the largest size (one word more than the quick tier) are built from the reduced form set {plain word, short name, --name=value, --}; all spellings are exercised at the smaller sizes"


def all_shapes_by_words(k, decl, allow_dd=True, full_upto=None):
    """every sequence of at most k argv words (a word tokenizes to one or two items).
    `full_upto`: sequences longer than that are built from REDUCED_FORMS only (a plain word, a short
    name, `--name=value`, `--`): the spelling variants are exercised in full at the smaller sizes"""
    out = []

    def rec(prefix, left, pos_only, forms):
        out.append(tuple(prefix))
        if left == 0:
            return
        if pos_only:
            rec(prefix + ["pos"], left - 1, True, forms)
            return
        for f in forms:
            if f == "pos":
                continue
            if f == "dd" and not allow_dd:
                continue
            if f == "shortv" and not decl.short_args:
                continue
            rec(prefix + [f], left - 1, f == "dd", forms)
    if full_upto is None or full_upto >= k:
        rec([], k, False, FORMS)
        return out
    rec([], full_upto, False, FORMS)
    seen = set(out)
    full = out
    out = []
    rec([], k, False, REDUCED_FORMS)
    return full + [s for s in out if len(s) > full_upto and s not in seen]


# ------------------------------------------------------------------------------------------------
# State

def mk_state(ex, items, path=(), comp=None, scope=None):
    L = ex.prog.layout
    unparsed = Adt("ItemState", L.variant_index("ItemState", "Unparsed"), ())
    parsed = Adt("ItemState", L.variant_index("ItemState", "Parsed"), ())
    n = len(items)
    st = []
    remaining = n
    dd_seen = False
    posw = L.variant_index("Arg", "PosWord")
    for it in items:
        if not dd_seen and it.var == posw and it.fields[0] == "--":
            st.append(parsed)
            remaining -= 1
            dd_seen = True
        else:
            st.append(unparsed)
    fields = {
        "items": Seq(tuple(items)),
        "item_state": Seq(tuple(st)),
        "remaining": remaining,
        "current": NONE,
        "path": Seq(tuple(path)),
        "scope": Adt("Range", 0, (0, n)),
        "comp": NONE if comp is None else comp,
    }
    order = L.adts["State"]["fields"]
    return Adt("State", 0, tuple(fields[f] for f in order))


def state_field(ex, st, name):
    return st.fields[ex.prog.layout.adts["State"]["fields"].index(name)]


# ------------------------------------------------------------------------------------------------
# outcome classification

def classify(ex, res):
    """Result<T, ParseFailure> -> ('ok', value) | ('stdout', doc) | ('stderr', doc) | ('completion', s)"""
    if res.ty != "Result":
        raise ExecError("not a Result: %r" % (res,))
    if res.var == 0:
        return ("ok", res.fields[0])
    pf = res.fields[0]
    names = [n for n, _ in ex.prog.layout.adts["ParseFailure"]["variants"]]
    return (names[pf.var].lower(), pf.fields[0])


def message_name(ex, doc):
    """name of the Message variant behind a cut Stderr document"""
    if type(doc) is Opaque and doc.tag == "rendered":
        m = doc.payload[0]
        return ex.prog.layout.adts["Message"]["variants"][m.var][0], m
    return None, None


# ------------------------------------------------------------------------------------------------
# concretisation: solver model -> argv

class Concretizer:
    def __init__(self, ex, model):
        self.ex = ex
        self.m = model
        self.fresh = {}
        self.used = set()
        self.n = 0

    def ival(self, t):
        v = self.m.eval(t, model_completion=True)
        return v.as_long()

    def string(self, t, want_valid=None):
        """id term -> concrete text"""
        i = self.ival(t) if not isinstance(t, int) else t
        s = self.ex.strrev.get(i)
        if s is not None:
            return s
        s = self.fresh.get(i)
        if s is None:
            ok = z3.is_true(self.m.eval(VALID(z3.IntVal(i)), model_completion=True))
            self.n += 1
            if ok:
                # decimal text of the model's numeric value; leading zeros keep distinct ids distinct
                num = self.m.eval(U32OF(z3.IntVal(i)), model_completion=True).as_long()
                s = str(num)
                while s in self.used or s in self.ex.strtab:
                    s = "0" + s
            else:
                s = "x%dq" % self.n
                if z3.is_true(self.m.eval(NONUTF8(z3.IntVal(i)), model_completion=False)):
                    s += "\udcff"  # byte 0xff through surrogateescape: not UTF-8
            self.used.add(s)
            self.fresh[i] = s
        return s

    def char(self, t):
        if isinstance(t, int):
            return chr(t)
        return chr(self.m.eval(t, model_completion=True).as_long())

    def argv(self, words):
        out = []
        for w in words:
            f = w.form
            if f in ("word", "pos"):
                out.append(self.string(w.val))
            elif f == "dd":
                out.append("--")
            elif f == "short":
                out.append("-" + self.char(w.name))
            elif f == "short=":
                out.append("-" + self.char(w.name) + "=" + self.string(w.val))
            elif f == "shortv":
                out.append("-" + self.char(w.name) + self.string(w.val))
            elif f == "long":
                out.append("--" + self.string(w.name))
            elif f == "long=":
                out.append("--" + self.string(w.name) + "=" + self.string(w.val))
            # the whole text of a named item (Arg::Short / Arg::Long carry it; `any` and error messages read it)
            os = getattr(w, "os", None)
            if os is not None and f not in ("word", "pos", "dd"):
                try:
                    i = self.ival(os) if not isinstance(os, int) else os
                    if i not in self.ex.strrev:
                        self.fresh[i] = out[-1]
                except Exception:  # noqa: BLE001
                    pass
        return out

    def env(self, names):
        out = {}
        for nm in names:
            t = z3.IntVal(self.ex.intern(nm))
            if z3.is_true(self.m.eval(ENVSET(t), model_completion=True)):
                out[nm] = self.string(ENVVAL(t))
        return out


def new_exec(prog, models=None, **kw):
    ex = Exec(prog, models or TOK_MODELS, **kw)
    if models is not None and "fmt::format" in models:
        from .C04 import install_placeholder_hooks
        install_placeholder_hooks(ex)
    ex.intern_hooks = (intern_hook,)
    # make sure the common literals have stable small ids
    for s in ("", "--", "-"):
        ex.intern(s)
    return ex
