"""Python-side description of the grammar corpus in /verif/harness/src/grammars.rs.

The Level structures are the *reference* view of each grammar (what its documentation-level
definition is); they are written independently of the Rust builders and a disagreement between
the two shows up as a violation on the very first run, so the pairing is self-checking.
"""
from spec.grammar import Named, Pos, Cmd, Cmds, Level
from .tok import Decl


class Gram:
    def __init__(self, builder, level, short_flags="", short_args="", env_names=(), note=""):
        self.builder = "vharness::grammars::" + builder
        self.name = builder
        self.level = level
        # help/version shorts are always declared flags
        self.decl = Decl(short_flags + "hV", short_args)
        self.env_names = list(env_names)
        self.note = note


CORPUS = {}


def add(g):
    CORPUS[g.name] = g


add(Gram("g1", Level([
    Named("switch", "a", ["alpha"]),
    Named("arg", "b", ["beta"], arity="req"),
    Named("arg", "c", ["gamma"], arity="opt"),
    Named("arg", "d", ["delta"], arity="many"),
]), short_flags="a", short_args="bcd", note="one switch, required/optional/many arguments"))
