"""Python-side description of the grammar corpus in /verif/harness/src/grammars.rs.

The Level structures are the *reference* view of each grammar (what its documentation-level
definition is); they are written independently of the Rust builders and a disagreement between
the two shows up as a violation on the very first run, so the pairing is self-checking.
"""
from spec.grammar import Named, Pos, Cmd, Cmds, Level, Group
from .tok import Decl


def _names(level, s, l, c):
    from spec import grammar as G
    for f in level.fields:
        if isinstance(f, G.Named):
            s.extend(f.shorts); l.extend(f.longs)
        elif isinstance(f, G.Group):
            for m in f.members:
                s.extend(m.shorts); l.extend(m.longs)
        elif isinstance(f, G.Cmds):
            for cm in f.cmds:
                c.extend(cm.names)
                _names(cm.level, s, l, c)


class Gram:
    def __init__(self, builder, level, short_flags="", short_args="", env_names=(), note="", names=None, help_shorts="hV", conv="u32"):
        self.conv = conv  # "u32": values go through the validity predicate; "string": OsString values, identity
        self.builder = "vharness::grammars::" + builder
        self.name = builder
        self.level = level
        self.all_shorts, self.all_longs, self.cmd_names = [], [], []
        if level is not None:
            _names(level, self.all_shorts, self.all_longs, self.cmd_names)
        if names is not None:
            self.all_shorts += [ord(c) for c in names[0]]
            self.all_longs += list(names[1])
            self.cmd_names += list(names[2])
        # help/version shorts are always declared flags
        self.decl = Decl(short_flags + help_shorts, short_args)
        self.own_short_flags = short_flags
        self.own_short_args = short_args
        self.env_names = list(env_names)
        self.note = note


CORPUS = {}


def add(g):
    CORPUS[g.name] = g


add(Gram("g1", Level([
    Named("switch", "a", ["alpha"]),
    Named("arg", "b", ["beta"], arity="req"),
    Named("arg", "c", ["gamma"], arity="opt"),
    Named("arg", "d", ["delta"], arity="many"),
]), short_flags="a", short_args="bcd", note="one switch, required/optional/many arguments"))

from mirsym.values import Adt


def mk(ty, var):
    return lambda vals: Adt(ty, var, tuple(vals))


add(Gram("g2", Level([
    Named("req_flag", "r", ["req"], present=()),
    Named("count", "v", ["verbose"]),
    Named("arg", "s", ["some"], arity="some"),
    Named("arg", "l", ["last"], arity="last"),
    Named("arg", "f", ["fall"], arity="fallback", default=42),
]), short_flags="rv", short_args="slf", note="required flag, counted flag, some/last/defaulted argument"))

add(Gram("g3", Level([
    Named("switch", "aA", ["alpha", "al"]),
    Named("arg", "bB", ["beta", "be"], arity="opt"),
]), short_flags="aA", short_args="bB", note="aliases"))

add(Gram("p1", Level([
    Named("switch", "a", ["alpha"]),
    Named("arg", "b", ["beta"], arity="opt"),
    Pos("req"),
    Pos("opt"),
]), short_flags="a", short_args="b", note="named + required and optional positional"))

add(Gram("p2", Level([
    Named("arg", "d", ["delta"], arity="many"),
    Pos("many"),
]), short_args="d", note="repeated argument and positional tail"))

add(Gram("p3", Level([
    Named("switch", "a", ["alpha"]),
    Pos("opt", strict="non_strict"),
    Pos("many", strict="strict"),
]), short_flags="a", note="non_strict optional then strict many"))

add(Gram("p4", Level([
    Named("arg", "b", ["beta"], arity="opt"),
    Pos("req", strict="strict"),
]), short_args="b", note="strict required positional"))

add(Gram("p6", Level([
    Pos("opt", strict="strict"),
    Pos("req"),
]), note="strict optional positional followed by an unrestricted required one"))
C01_GRAMMARS.append("p6") if "C01_GRAMMARS" in globals() else None

add(Gram("p5", Level([
    Pos("req"),
    Pos("many"),
]), note="positionals only"))

_c1_add = Level([Named("switch", "n", ["new"]), Pos("req")], make=mk("Cmd1", 0))
_c1_rm = Level([Named("arg", "f", ["force"], arity="opt"), Pos("many")], make=mk("Cmd1", 1))

add(Gram("c1", Level([
    Named("switch", "v", ["verbose"]),
    Named("arg", "t", ["top"], arity="opt"),
    Cmds([Cmd(["add", "a"], _c1_add), Cmd(["rm", "remove"], _c1_rm)]),
]), short_flags="vn", short_args="tf", note="two subcommands with aliases under a level with named items"))

_c2_leaf = Level([Named("switch", "z", ["zed"]), Pos("opt")], make=mk("Inner2", 0))
_c2_mid = Level([Named("switch", "m", ["mid"]), Cmds([Cmd(["leaf"], _c2_leaf)])])

add(Gram("c2", Level([
    Named("switch", "v", ["verbose"]),
    Cmds([Cmd(["mid"], _c2_mid)]),
]), short_flags="vmz", note="subcommand tree of depth 2"))

add(Gram("c3", Level([
    Named("switch", "v", ["verbose"]),
    Cmds([Cmd(["add"], _c1_add)], optional=True),
]), short_flags="vn", note="optional subcommand"))

C01_GRAMMARS = ["g1", "g2", "g3", "p1", "p2", "p3", "p4", "p5", "p6", "c1", "c2", "c3"]


add(Gram("v1", Level([
    Named("arg", "a", ["alpha"], arity="req", guard=True),
    Named("arg", "b", ["beta"], arity="opt", guard=True),
    Named("arg", "c", ["gamma"], arity="many", guard=True),
]), short_args="abc", note="guard under required / optional / many"))

add(Gram("v2", Level([
    Named("arg", "a", ["alpha"], arity="fallback", guard="parse", default=7),
    Named("arg", "b", ["beta"], arity="last", guard="parse"),
    Named("arg", "c", ["gamma"], arity="some", guard="parse"),
]), short_args="abc", note="parse step under fallback / last / some"))

add(Gram("v3", Level([
    Pos("opt", guard=True),
    Pos("fallback", default=3),
]), note="guarded optional positional, defaulted positional"))

_ab = [Named("arg", "a", ["alpha"], arity="req"), Named("arg", "b", ["beta"], arity="req")]
add(Gram("o1", Level([Group(_ab, "opt"), Named("switch", "s", ["sw"])]), short_flags="s", short_args="ab",
         note="optional group of two required arguments"))
add(Gram("o2", Level([Group(_ab, "many"), Named("switch", "s", ["sw"])]), short_flags="s", short_args="ab",
         note="repeated group of two required arguments"))

C06_GRAMMARS = ["v1", "v2", "v3", "o1", "o2", "g1", "g2", "p1"]


# grammars without a full reference semantics in spec/grammar.py (dedicated oracles in C07/C19/C02);
# only their declared names are listed
add(Gram("a1", None, short_flags="as", short_args="bxy", names=("abxys", ["alpha", "beta", "ex", "why", "sw"], []), note="bare choice"))
add(Gram("a2", None, short_flags="as", short_args="bxy", names=("abxys", ["alpha", "beta", "ex", "why", "sw"], []), note="optional choice"))
add(Gram("a3", None, short_flags="as", short_args="bxy", names=("abxys", ["alpha", "beta", "ex", "why", "sw"], []), note="repeated choice"))
add(Gram("j1", Level([
    Named("switch", "a", ["alpha"]),
    Named("arg", "b", ["beta"], arity="opt", adjacent=True),
]), short_flags="a", short_args="b", note="adjacent-restricted argument"))
add(Gram("k1", None, short_flags="ps", names=("ps", ["point", "sw"], []), note="adjacent multi-value option, repeated"))
add(Gram("k2", None, short_flags="rs", short_args="wh", help_shorts="V", names=("rswh", ["rect", "sw", "width", "height"], []), note="adjacent option-struct (help is --help only)"))

add(Gram("h1", Level([
    Named("switch", "a", ["alpha"]),
    Named("arg", "b", ["beta"], arity="req"),
]), short_flags="a", short_args="b", note="version configured"))
add(Gram("h2", Level([
    Named("switch", "v", ["verbose"]),
    Cmds([Cmd(["add"], _c1_add)]),
]), short_flags="vn", note="subcommand with its own version, fallback_to_usage"))

add(Gram("gd", Level([
    Named("switch", "a", ["alpha"]),
    Named("arg", "b", ["beta"], arity="opt"),
]), short_flags="a", short_args="b", note="styled group_help document: a non-ASCII fragment ending its line + an emphasised fragment (Doc::first_line runs on it in autocomplete builds)"))

add(Gram("eg", None, short_flags="f", short_args="n", env_names=["VERIF_G"], names=("nf", ["num", "force"], []),
         note="env-backed switch under a guard next to an argument (the guard's message quotes the item State::current points at)"))

_fu = Gram("fu", Level([
    Named("arg", "a", ["alpha"], arity="req"),
    Named("arg", "b", ["beta"], arity="req"),
]), short_args="ab", note="two required arguments, fallback_to_usage (usage on stdout for the empty line only)")
_fu.usage_fallback = True
add(_fu)

add(Gram("e1", Level([
    Named("switch", "a", ["alpha"], env="VERIF_A"),
    Named("arg", "b", ["beta"], arity="req", env="VERIF_B"),
    Named("arg", "c", ["gamma"], arity="opt", env="VERIF_C"),
    Named("arg", "d", ["delta"], arity="many", env="VERIF_D"),
    Named("arg", "f", ["fall"], arity="fallback", env="VERIF_F", default=42),
]), short_flags="a", short_args="bcdf", env_names=["VERIF_A", "VERIF_B", "VERIF_C", "VERIF_D", "VERIF_F"],
    note="env-backed switch and arguments under every wrapper"))

add(Gram("kc", None, short_flags="va", names=("va", ["verbose", "all"], ["c"]), note="adjacent subcommand chain `c [-a]`..., top-level switch, positional tail"))

add(Gram("k3", None, short_flags="rs", short_args="wh", help_shorts="V", names=("rswh", ["rect", "sw", "width", "height"], []), note="switch before an optional adjacent option-struct"))
add(Gram("k4", None, short_flags="rs", short_args="wh", help_shorts="V", names=("rswh", ["rect", "sw", "width", "height"], []), note="switch before a repeated adjacent option-struct"))

add(Gram("c4", Level([
    Named("arg", "t", ["top"], arity="req"),
    Cmds([Cmd(["add"], _c1_add)]),
]), short_flags="n", short_args="t", note="required top-level argument before a subcommand"))

add(Gram("g4", Level([
    Named("switch", "a", ["alpha"]),
    Named("arg", "d", ["delta"], arity="many"),
    Named("arg", "f", ["fall"], arity="fallback", default=1),
]), short_flags="a", short_args="df", note="switch declared before a repeated argument"))

_o3 = Group(_ab, "opt")
_o3.default = (0, 0)
add(Gram("o3", Level([_o3, Named("switch", "s", ["sw"])], make=lambda v: ((v[0].fields[0] if v[0].var == 1 else (0, 0)), v[1])),
         short_flags="s", short_args="ab", note="group of two required arguments under fallback_with"))
add(Gram("a6", None, short_flags="as", short_args="bxy", names=("abxys", ["alpha", "beta", "ex", "why", "sw"], []), note="bare choice, the two-argument group declared first"))
add(Gram("a7", None, short_flags="as", short_args="bxy", names=("abxys", ["alpha", "beta", "ex", "why", "sw"], []), note="repeated choice, the two-argument group declared first"))
add(Gram("a4", None, short_flags="abcs", names=("abcs", ["alpha", "beta", "gamma", "sw"], []), note="repeated choice between three flags"))
C01_GRAMMARS.append("g4")
C01_GRAMMARS.append("c5")
C01_GRAMMARS.append("c7")
C01_GRAMMARS.append("c8")
C06_GRAMMARS.append("o3")

add(Gram("c5", Level([
    Named("switch", "v", ["verbose"]),
    Cmds([Cmd(["add"], _c1_add)], optional=True),
]), short_flags="vn", note="optional subcommand under catch"))
add(Gram("c6", Level([
    Named("switch", "v", ["verbose"]),
    Cmds([Cmd(["rm"], _c1_rm)], optional=True),
]), short_flags="v", short_args="f", note="repeated subcommand (reference Level describes the chain only; not used differentially)"))

_c7_mid = Level([Named("switch", "m", ["mid"]), Cmds([Cmd(["leaf"], _c2_leaf)], optional=True)])
add(Gram("c7", Level([
    Named("switch", "v", ["verbose"]),
    Cmds([Cmd(["mid"], _c7_mid)]),
]), short_flags="vmz", note="depth 2; the inner command is one branch of a choice whose other branch (`pure`) always succeeds"))

_c8_seven = Level([Named("switch", "z", ["zed"])], make=mk("Alt8", 0))
_c8_mid = Level([Named("switch", "m", ["mid"]),
                 Cmds([Cmd(["7"], _c8_seven)], alt=Pos("many"), alt_tag=lambda v: Adt("Alt8", 1, (v,)))])
add(Gram("c8", Level([
    Named("switch", "v", ["verbose"]),
    Cmds([Cmd(["mid"], _c8_mid)]),
]), short_flags="vmz", note="depth 2; the inner command's name `7` is valid data for the sibling branch (repeated positional)"))

add(Gram("am", None, short_flags="ab", short_args="a", names=("ab", ["arg", "flag", "bee"], []),
         note="short `a` is both a flag and an argument (ambiguous clusters), optional, next to a switch"))

_c9_remote = Level([Cmds([Cmd(["add"], _c1_add)])])
_c9_stash = Level([Cmds([Cmd(["add"], _c1_rm), Cmd(["stash"], _c1_add)])])
add(Gram("c9", Level([
    Named("switch", "v", ["verbose"]),
    Cmds([Cmd(["remote"], _c9_remote), Cmd(["stash"], _c9_stash)]),
]), short_flags="vn", short_args="f", note="the same command name at several places of the tree (`remote add`, `stash add`, `stash stash`)"))

# choice between a named flag and a positional: the Level lists the names (C14 reads names and commands
# only); the choice semantics is not expressible in spec/grammar.py, so these are in no differential list
_f1_stdin = Named("req_flag", "i", ["stdin"], present=())
add(Gram("f1", Level([Named("switch", "v", ["verbose"]), _f1_stdin, Pos("opt")]), short_flags="vi",
         note="choice between a named flag and a positional, next to a switch (names-only Level)"))
add(Gram("f2", Level([Named("switch", "v", ["verbose"]), Cmds([Cmd(["cat"], Level([_f1_stdin, Pos("opt")]))])]), short_flags="vi",
         note="the same choice inside a subcommand (names-only Level)"))

add(Gram("un", None, short_flags="n", names=("n", ["gr\u00f6\u00dfe", "new"], ["s\u00fcd"]), note="non-ASCII long name and command name"))

_hr_token = Named("arg", "t", ["token"], arity="req")
_hr_token.hidden = True
add(Gram("hr", Level([Named("switch", "v", ["verbose"]), _hr_token]), short_flags="v", short_args="",
         note="hidden required argument next to a switch (hidden shorts are not in the tokenizer's table)"))
C01_GRAMMARS.append("hr")

add(Gram("k6", None, short_flags="rps", names=("rps", ["rect", "point", "sw"], []), note="nested adjacent groups `--rect --point X Y`, repeated, next to a switch"))
_gh_run = Level([Named("switch", "d", ["dry-run"])])
add(Gram("gh", Level([Named("switch", "v", ["verbose"]), Cmds([Cmd(["run"], _gh_run)])]), short_flags="vd",
         note="a group_help section that starts with a flag and also holds a command"))
C01_GRAMMARS.append("gh")

add(Gram("f3", None, short_flags="v", names=("v", ["verbose"], []), conv="string",
         note="choice between a counted flag (succeeds without consuming) and an OsString positional: both branches succeed"))
add(Gram("x1", Level([
    Named("switch", "a", ["alpha"]),
    Named("arg", "d", ["delta"], arity="many"),
    Named("arg", "f", ["fall"], arity="fallback", default=1),
], make=lambda v: (v[0], v[1], v[2], 7)), short_flags="a", short_args="df",
    note="g4's grammar built from boxed / collect / group_help / hide_usage / pure_with / header / footer / max_width (+ complete under the feature)"))
C01_GRAMMARS.append("x1")
add(Gram("x2", None, short_flags="v", names=("v", ["verbose"], []), conv="string", note="switch + any(..).many(): every other item is collected"))
add(Gram("x4", None, short_flags="abs", names=("abs", ["alpha", "beta", "sw"], []), note="choice of two flags that ends in fail(..), next to a switch"))

_kv_drink = Cmd(["drink"], Level([Named("switch", "c", ["coffee"])]))
_kv_drink.adjacent = True
add(Gram("kv", Level([Named("switch", "p", ["pour"]), Cmds([_kv_drink], optional=True)]), short_flags="pc",
         note="repeated adjacent subcommand with its own version (the Level describes names and the command chain only; not used differentially)"))
CORPUS["kv"].adjacent_cmds = True
add(Gram("cr", Level([Cmds([Cmd(["7"], _c8_seven)], alt=Pos("many"), alt_tag=lambda v: Adt("Alt8", 1, (v,)))], make=lambda v: v[0]),
         short_flags="z", note="top-level choice [repeated positional | command `7`]: the positional branch is listed first and could swallow the command name"))
C01_GRAMMARS.append("cr")

_ka = [Named("switch", "v", ["verbose"]), Named("req_flag", "r", ["rect"], present=()), Named("arg", "w", ["width"], arity="req"),
       Named("switch", "f", ["fill"]), Named("arg", "o", ["output"], arity="opt")]
for _f in _ka[1:4]:
    _f.in_adjacent = True
add(Gram("ka", Level(_ka), short_flags="vrf", short_args="wo",
         note="adjacent option-struct `--rect --width W [--fill]` (W has a user completer) between a switch and an argument (names-only Level: used by C14)"))

add(Gram("a5", None, short_flags="bcs", names=("bcs", ["beta", "gamma", "sw"], ["go"]), note="repeated choice between an adjacent command `go` (a bare word) and two flags"))
add(Gram("k5", None, short_flags="rs", short_args="w", names=("rsw", ["rect", "sw", "width"], []), note="switch, then optional adjacent group (flag + argument), then optional positional"))

_hd_secret = Named("switch", "s", ["secret"])
_hd_secret.hidden = True
add(Gram("hd", Level([
    Named("switch", "a", ["alpha"]),
    _hd_secret,
    Named("arg", "b", ["beta"], arity="opt"),
    Pos("opt"),
]), short_flags="a", short_args="b", note="hidden switch next to visible items (ParseHide::meta is Meta::Skip, so the hidden short is not in the tokenizer's table)"))
C01_GRAMMARS.append("fu")
