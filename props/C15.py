"""C15 - completion scripts for real shells are well-formed and inert.

  quote:<L>    `Shell` (the single-quote wrapper, complete_shell.rs) executed from MIR through the
               core::fmt models on every valid UTF-8 string of L symbolic bytes; the output must lex,
               under POSIX single-quote rules (reference lexer below), as exactly ONE word whose value
               is the input - no byte outside quotes other than the `\\'` pairs
  render:*     render_zsh / render_bash / render_fish / render_simple executed from MIR on
               candidate lists (0-2 items) and shell-completer lists (0-2 ops) whose user-originated
               strings (typed word, subst, pretty, help, group) are opaque *atoms*; the formatting
               model records, for every atom that reaches the output, whether it went through `Shell`.
               Obligations for zsh and bash: no atom reaches the output raw (ShellComp::Raw scripts
               are programmer-supplied and exempt); every output line lexes and is one of the
               directive shapes of that shell; every candidate and every requested completer appears
               in exactly one directive.  fish / elvish use a line based protocol: every candidate
               with a replacement appears exactly once.
Renderer selection by revision is C04's `complete` job; the static stubs in complete_run.rs are
constant text.
"""
import itertools
import re
import z3

from mirsym.engine import parse_callee, Unmodelled, ExecError, BoundExceeded, Panic, Infeasible, Exec
from mirsym.values import *
from mirsym.models import NONE, SOME, OK, ERR, rd, rda, val_eq, MODELS
from mirsym import fmtmodels as FM
from mirsym import textmodels as TM
from . import tok
from .framework import Replayer

PROP = "C15"
FEATURE_SETS = ("full",)
SQ, BS = 0x27, 0x5C


# ------------------------------------------------------------------------------------------------
# quote jobs

def lex_single_word(ex, bs):
    """POSIX sh: the byte string is one word made only of single-quoted parts and `\\'` pairs; returns
    the word's value (list of bytes) or None"""
    n = len(bs)
    i = 0
    val = []
    if n == 0:
        return None

    def is_(b, c):
        return b == c if isinstance(b, int) else ex.branch(b == c, "lex")
    while i < n:
        if is_(bs[i], SQ):
            i += 1
            while True:
                if i >= n:
                    return None  # unterminated quote
                if is_(bs[i], SQ):
                    i += 1
                    break
                val.append(bs[i])
                i += 1
        elif is_(bs[i], BS):
            if i + 1 < n and is_(bs[i + 1], SQ):
                val.append(SQ)
                i += 2
            else:
                return None
        else:
            return None  # a byte outside quotes: the shell would interpret it
    return val


def text_exec(prog):
    models = dict(TM.TEXT_MODELS)
    models.update(FM.FMT_MODELS)
    ex = Exec(prog, models, step_budget=300000)
    TM.install_hooks(ex)
    ex.char_origin = {}

    def sym_char(ex_, ch):
        o = ex_.char_origin.get(ch.get_id())
        if o is None:
            raise Unmodelled("write of a symbolic char of unknown origin")
        return BStr(o)
    ex.fmt_sym_char = sym_char
    return ex


def run_quote_job(job, build):
    prog = tok.load_program(build, "full")
    ex = text_exec(prog)
    L = job["len"]
    out = {"stats": None, "cex": [], "inconclusive": [], "samples": [], "nontrivial": 0, "obligations": 0}
    # remember which bytes a decoded char came from, so that writing it back is exact
    orig_decode = TM.decode_char

    def decode(ex_, bs, p):
        ch, w = orig_decode(ex_, bs, p)
        if is_sym(ch):
            ex_.char_origin[ch.get_id()] = tuple(bs[p:p + w])
        return ch, w
    TM.decode_char = decode

    def harness(ex):
        bs = [ex.fresh("b", 8) for _ in range(L)]
        if not TM.utf8_valid(ex, bs):
            raise Infeasible()  # &str is valid UTF-8 by construction
        sh = Adt("Shell", 0, (BStr(tuple(bs)),))
        sink = Cell("", "out")
        res = ex.call(parse_callee("<Shell<'_> as std::fmt::Display>::fmt"), [Ref(Cell(sh, "shell"), ()), FM.mk_formatter(Ref(sink, ()))])
        return (bs, sink.v, res)

    def on_path(ex, r):
        if r.kind != "ok":
            out["cex"].append({"kind": "quote-panics", "info": str(r.info), "bytes": None})
            return
        bs, text, res = r.value
        ob = list(TM.to_bstr(text).b)
        if ex.pc:
            out["nontrivial"] += 1

        def leaf(ex2, val):
            out["obligations"] += 1
            bad = None
            if res.var != 0:
                bad = "fmt error"
            elif val is None:
                bad = "output is not a single quoted word"
            elif len(val) != len(bs):
                bad = "word value has a different length"
            else:
                from mirsym.models import and_all, byte_eq
                eq = and_all(ex2, [byte_eq(x, y) for x, y in zip(val, bs)])
                if eq is False or (eq is not True and ex2.prove(eq) is not None):
                    if eq is not False and eq is not True:
                        ex2.solver.add(z3.Not(eq))
                    bad = "word value differs from the input"
            if bad:
                m = ex2.model()
                inp = bytes(b if isinstance(b, int) else m.eval(b, model_completion=True).as_long() for b in bs)
                outp = bytes(b if isinstance(b, int) else m.eval(b, model_completion=True).as_long() for b in ob)
                out["cex"].append({"kind": "quote-unsafe", "bytes": inp.hex(), "input": inp.decode("utf-8", "replace"), "output": outp.decode("utf-8", "replace"), "why": bad})
        ex.sub_explore(lambda e: lex_single_word(e, ob), leaf)
        if len(out["samples"]) < 2:
            m = ex.model()
            inp = bytes(b if isinstance(b, int) else m.eval(b, model_completion=True).as_long() for b in bs)
            outp = bytes(b if isinstance(b, int) else m.eval(b, model_completion=True).as_long() for b in ob)
            out["samples"].append({"input": inp.decode("utf-8", "replace"), "quoted": outp.decode("utf-8", "replace")})
    try:
        ex.explore(harness, on_path, max_paths=400000)
    except Unmodelled as e:
        out["inconclusive"].append("UNMODELLED %s [%s]" % (e, "/".join(ex.callstack[-3:])))
    except BoundExceeded as e:
        out["inconclusive"].append("BOUND %s" % e)
    except ExecError as e:
        out["inconclusive"].append("EXEC-ERROR %s [%s]" % (e, "/".join(ex.callstack[-3:])))
    finally:
        TM.decode_char = orig_decode
    out["stats"] = dict(ex.stats)
    out["models_used"] = dict(ex.model_hits)
    out["fn_hits"] = dict(ex.fn_hits)
    return out


# ------------------------------------------------------------------------------------------------
# render jobs

EMPTY = {}


def atom(name):
    return Opaque("atom", (name,))


def atom_models():
    """string predicates on atoms are symbolic booleans (one per atom)"""
    models = dict(MODELS)
    models.update(FM.FMT_MODELS)

    def empty_var(name):
        return z3.Bool("empty!" + name)

    def m_is_empty(ex, c, args):
        v = rda(args[0])
        if FM.is_atom(v):
            return ex.branch(empty_var(v.payload[0]), "atom-empty")
        if FM.is_rope(v):
            for p in v.payload[0]:
                if type(p) is str and p:
                    return False
            return all(ex.branch(empty_var(p[2]), "atom-empty") for p in v.payload[0] if type(p) is tuple and isinstance(p[2], str))
        return MODELS["String::is_empty"](ex, c, args)
    for k in ("String::is_empty", "str::is_empty"):
        models[k] = m_is_empty

    def m_split(ex, c, args):
        v = rda(args[0])
        if FM.is_atom(v):
            # `help.split('\\n').next()`: the first line of an atom is a different text from the atom (which may
            # hold line breaks): recorded as the derived atom `<name>|line1`
            return PyIter("vec_into", Seq((atom(v.payload[0] + "|line1"),)), 0)
        return MODELS["str::split"](ex, c, args)
    models["str::split"] = m_split

    def eq(ex, a, b):
        a, b = rda(a), rda(b)
        if FM.is_atom(a) and FM.is_atom(b):
            if a.payload[0] == b.payload[0]:
                return True
            # distinct atoms denote distinct texts unless both are empty
            return z3.And(empty_var(a.payload[0]), empty_var(b.payload[0]))
        if FM.is_atom(a) and isinstance(b, str):
            return empty_var(a.payload[0]) if b == "" else False
        if FM.is_atom(b) and isinstance(a, str):
            return empty_var(b.payload[0]) if a == "" else False
        return val_eq(ex, a, b)
    models["PartialEq::eq"] = lambda ex, c, args: eq(ex, args[0], args[1])

    def ne(ex, c, args):
        r = eq(ex, args[0], args[1])
        return (not r) if isinstance(r, bool) else z3.Not(r)
    models["PartialEq::ne"] = ne
    return models


MASKS = ["*.txt", "(a|b)", "x y;'z", "*.(c|h'x)", "(a'; touch /tmp/pwn; 'b)"]
# the first seven entries keep their positions (quick-tier pairs are addressed by index); masks 3 and 4 take
# the extglob branch of the bash renderer (`*.(..)`, `(..)`) *and* contain a quote
OPS = [("file", None), ("file", 0), ("file", 2), ("dir", None), ("dir", 1), ("raw", None), ("nothing", None), ("file", 3), ("dir", 4), ("file", 1), ("raw", 1)]


def mk_op(ex, spec):
    L = ex.prog.layout
    kind, mi = spec
    vi = lambda n: L.variant_index("ShellComp", n)
    if kind == "file":
        return Adt("ShellComp", vi("File"), (NONE if mi is None else SOME(MASKS[mi]),))
    if kind == "dir":
        return Adt("ShellComp", vi("Dir"), (NONE if mi is None else SOME(MASKS[mi]),))
    if kind == "raw":
        fl = L.adts["ShellComp"]["variants"][vi("Raw")][1]
        # one snippet per shell; `mi` = 1: the shell under test has no snippet (the documentation: an empty
        # string means "not supported by this shell", nothing is emitted), the other shells have theirs
        cur = getattr(ex, "c15_shell", None)
        d = {sh: ("" if (mi == 1 and sh == cur) else atom("rawscript-" + sh)) for sh in ("bash", "zsh", "fish", "elvish")}
        return Adt("ShellComp", vi("Raw"), tuple(d[f] for f in fl))
    return Adt("ShellComp", vi("Nothing"), ())


def mk_item(ex, i, has_help, has_group, group_name=None):
    L = ex.prog.layout
    efl = L.adts["CompExtra"]["fields"]
    ed = {"depth": 0, "group": SOME(atom(group_name or "group%d" % i)) if has_group else NONE, "help": SOME(atom("help%d" % i)) if has_help else NONE}
    extra = Adt("CompExtra", 0, tuple(ed[f] for f in efl))
    sfl = L.adts["ShowComp"]["fields"]
    sd = {"subst": atom("subst%d" % i), "pretty": atom("pretty%d" % i), "extra": Ref(Cell(extra, "extra"), ())}
    return Adt("ShowComp", 0, tuple(sd[f] for f in sfl))


# --- reference shell lexer over literal text + segments ------------------------------------------

def split_lines(parts):
    """rope parts -> list of lines, each a list of pieces (str without newline | segment)"""
    lines = [[]]
    for p in parts:
        if type(p) is str:
            chunks = p.split("\n")
            for ci, ch in enumerate(chunks):
                if ci > 0:
                    lines.append([])
                if ch:
                    lines[-1].append(ch)
        else:
            lines[-1].append(p)
    if lines and not lines[-1]:
        lines.pop()
        terminated = True
    else:
        terminated = False
    return lines, terminated


class LexError(Exception):
    pass


def lex_line(pieces):
    """POSIX-ish lexing of one line: returns list of words; a word is a list of atoms:
    ('lit', text) unquoted literal, ('q', text) single-quoted literal, ('seg', mode, name)"""
    words = []
    cur = None

    def push():
        nonlocal cur
        if cur is not None:
            words.append(cur)
            cur = None
    for p in pieces:
        if type(p) is not str:
            if cur is None:
                cur = []
            cur.append(("seg", p[1], p[2]))
            continue
        i = 0
        n = len(p)
        while i < n:
            c = p[i]
            if c in " \t":
                push()
                i += 1
            elif c == "'":
                j = p.find("'", i + 1)
                if j < 0:
                    raise LexError("unterminated single quote")
                if cur is None:
                    cur = []
                cur.append(("q", p[i + 1:j]))
                i = j + 1
            elif c == "\\":
                if i + 1 >= n:
                    raise LexError("dangling backslash")
                if cur is None:
                    cur = []
                cur.append(("q", p[i + 1]))
                i += 2
            elif c in ";|&<>`$\"":
                push()
                words.append([("op", c)])
                i += 1
            else:
                if cur is None:
                    cur = []
                if cur and cur[-1][0] == "lit":
                    cur[-1] = ("lit", cur[-1][1] + c)
                else:
                    cur.append(("lit", c))
                i += 1
    push()
    return words


def word_text(w):
    """skeleton of a word: literals verbatim, quoted / segments as placeholders"""
    out = []
    for a in w:
        if a[0] == "lit":
            out.append(a[1])
        elif a[0] == "op":
            out.append(a[1])
        elif a[0] == "q":
            out.append("Q")
        elif a[0] == "seg":
            out.append("Q" if a[1].startswith("quoted") else "RAW")
    return "".join(out)


ZSH_SHAPES = [
    r"compadd -- Q", r"compadd Q", r"_files", r"_files -g Q", r"_files -/", r"_files -/ -g Q", r"local -a descr",
    r"descr=\(Q\)", r"compadd -l -d descr -V Q -X Q -- Q", r"compadd -l -V nosort -d descr -- Q",
]
BASH_SHAPES = [
    r"COMPREPLY\+=\(Q\)", r"COMPREPLY\+=\( Q \)", r"COMPREPLY\+=\( Q Q\)",
    r"local cur prev words cword ; _init_completion \| \| return ; _filedir", r"local cur prev words cword ; _init_completion \| \| return ; _filedir Q",
    r"local cur prev words cword ; _init_completion \| \| return ; _filedir -d", r"local cur prev words cword ; _init_completion \| \| return ; _filedir -d Q",
    r"",
]


def judge_script(shell, parts, items_n, ops, lit_used):
    """returns list of problems"""
    problems = []
    lines, terminated = split_lines(parts)
    if lines and not terminated:
        problems.append("last directive is not terminated by a newline")
    shapes = ZSH_SHAPES if shell == "zsh" else BASH_SHAPES
    seen_items = {}
    seen_ops = 0
    for ln in lines:
        if not ln or all(isinstance(x, str) and not x.strip() for x in ln):
            continue  # an empty line is an empty command (what a Raw completer without a snippet for this shell leaves)
        # a Raw op is a programmer supplied script: exempt, must be alone on its line
        if len(ln) == 1 and type(ln[0]) is tuple and isinstance(ln[0][2], str) and ln[0][2].startswith("rawscript-"):
            if ln[0][2] != "rawscript-" + shell:
                problems.append("the Raw snippet written for %s is emitted in the %s output" % (ln[0][2][10:], shell))
            seen_ops += 1
            continue
        try:
            words = lex_line(ln)
        except LexError as e:
            problems.append("line does not lex: %s: %r" % (e, ln))
            continue
        flat = " ".join(re.sub(r"Q+", "Q", word_text(w)) for w in words)
        if "RAW" in flat:
            raw = [p[2] for p in ln if type(p) is tuple and not p[1].startswith("quoted")]
            problems.append("unquoted user text %r in directive %r" % (raw, flat))
            continue
        if not any(re.fullmatch(s, flat) for s in shapes):
            problems.append("not a complete %s directive: %r" % (shell, flat))
            continue
        if flat.startswith("_files") or "_filedir" in flat:
            seen_ops += 1
        for p in ln:
            if type(p) is tuple:
                names = [p[2]] if isinstance(p[2], str) else [q[2] for q in p[2] if type(q) is tuple and isinstance(q[2], str)]
                for nm in names:
                    m = re.match(r"(subst|pretty)(\d+)$", nm)
                    if m:
                        seen_items.setdefault(int(m.group(2)), set()).add(id(ln))
    want_ops = len([o for o in ops if o[0] != "nothing" and tuple(o) != ("raw", 1)])
    if seen_ops != want_ops:
        problems.append("%d requested shell completer(s) but %d completer directive(s) in the output" % (want_ops, seen_ops))
    for i in range(items_n):
        if i not in seen_items:
            problems.append("candidate %d does not appear in the output" % i)
    return problems


def run_render_job(job, build):
    prog = tok.load_program(build, "full")
    models = atom_models()
    ex = Exec(prog, models, step_budget=400000)
    shell = job["shell"]
    ex.c15_shell = shell
    nitems = job["items"]
    ops = [tuple(o) for o in job["ops"]]
    flags = job["flags"]  # per item (has_help, has_group)
    out = {"stats": None, "cex": [], "inconclusive": [], "samples": [], "nontrivial": 0, "obligations": 0}
    fn = {"zsh": "complete_shell::render_zsh", "bash": "complete_shell::render_bash", "fish": "complete_shell::render_fish", "simple": "complete_shell::render_simple"}[shell]

    def harness(ex):
        items = Seq(tuple(mk_item(ex, i, flags[i][0], flags[i][1], "group0" if job.get("same_group") else None) for i in range(nitems)))
        opv = Seq(tuple(mk_op(ex, o) for o in ops))
        lit = atom("typed")
        a = [Ref(Cell(items, "items"), ())]
        if shell != "simple":
            a.append(Ref(Cell(opv, "ops"), ()))
            a.append(lit)
        if shell == "fish":
            a.append("app")
        res = ex.call(parse_callee(fn), a)
        return res

    def on_path(ex, r):
        out["obligations"] += 1
        if ex.pc:
            out["nontrivial"] += 1
        if r.kind != "ok":
            out["cex"].append({"kind": "renderer-panics", "shell": shell, "info": str(r.info), "job": job["id"]})
            return
        res = r.value
        if res.var != 0:
            out["cex"].append({"kind": "renderer-fmt-error", "shell": shell, "info": "Err", "job": job["id"]})
            return
        text = res.fields[0]
        parts = FM.rope_parts(text)
        m = ex.model()
        empties = sorted(str(d) for d in m.decls() if str(d).startswith("empty!") and z3.is_true(m[d]))
        shown = "".join(p if type(p) is str else "⟦%s:%s⟧" % (p[1], p[2] if isinstance(p[2], str) else "…") for p in parts)
        if len(out["samples"]) < 1:
            out["samples"].append({"shell": shell, "items": nitems, "ops": ops, "output": shown})
        if shell in ("zsh", "bash"):
            probs = judge_script(shell, parts, nitems, ops, None)
            # an empty-subst single item legitimately renders `pretty` instead of `subst`
            for p in probs:
                out["cex"].append({"kind": "script-malformed", "shell": shell, "why": p, "output": shown, "empty_atoms": empties,
                                   "items": nitems, "ops": ops, "flags": flags, "job": job["id"]})
        else:
            # line protocol: one record per line - a help text (which may hold line breaks: descriptions of a
            # dynamic completer arrive verbatim) must be cut at its first line before it is written
            for p in parts:
                if type(p) is tuple and isinstance(p[2], str) and re.fullmatch(r"help\d+", p[2]):
                    out["cex"].append({"kind": "record-split", "shell": shell, "why": "the whole help text %s is written into the line protocol: a line break inside it splits the record and the rest becomes a candidate" % p[2],
                                       "output": shown, "empty_atoms": empties, "items": nitems, "ops": ops, "flags": flags, "job": job["id"]})
                    break
            # every candidate with a replacement appears exactly once
            for i in range(nitems):
                cnt = sum(1 for p in parts if type(p) is tuple and p[2] == "subst%d" % i)
                empty = ("empty!subst%d" % i) in empties
                want = 1
                if shell == "fish" and empty:
                    want = 0
                if cnt != want and not (shell == "simple" and empty):
                    out["cex"].append({"kind": "candidate-count", "shell": shell, "why": "candidate %d appears %d times" % (i, cnt), "output": shown,
                                       "empty_atoms": empties, "items": nitems, "ops": ops, "flags": flags, "job": job["id"]})
    try:
        ex.explore(harness, on_path, max_paths=100000)
    except Unmodelled as e:
        out["inconclusive"].append("UNMODELLED %s [%s]" % (e, "/".join(ex.callstack[-3:])))
    except BoundExceeded as e:
        out["inconclusive"].append("BOUND %s" % e)
    except ExecError as e:
        out["inconclusive"].append("EXEC-ERROR %s [%s]" % (e, "/".join(ex.callstack[-3:])))
    out["stats"] = dict(ex.stats)
    out["models_used"] = dict(ex.model_hits)
    out["fn_hits"] = dict(ex.fn_hits)
    return out


# ------------------------------------------------------------------------------------------------

def finding_key(c):
    """role keys of known findings"""
    w = c.get("why", "")
    o = c.get("output", "")
    if c["shell"] == "bash" and re.search(r"_filedir( -d)?(COMPREPLY|local cur)", o):
        return "bash-filedir-without-newline"
    if c["shell"] == "zsh" and "unquoted user text ['typed']" in w:
        return "zsh-fallback-typed-word-unquoted"
    if c["shell"] == "bash" and "_filedir" in w and "not a complete bash directive" in w:
        return "bash-filedir-without-newline"
    if c["shell"] == "bash" and "not terminated by a newline" in w:
        return "bash-filedir-without-newline"
    if c["shell"] == "zsh" and "requested shell completer" in w and c.get("items") == 1:
        return "zsh-single-candidate-drops-shell-completers"
    return None


def make_jobs(tier, seed, build):
    jobs = []
    for L in range(0, (6 if tier == "quick" else 8) + 1):
        jobs.append({"id": "quote:%d" % L, "kind": "quote", "len": L})
    opsets = [()] + [(o,) for o in OPS]
    if tier != "quick":
        opsets += [(a, b) for a in OPS for b in OPS]
    else:
        opsets += [(OPS[0], OPS[3]), (OPS[1], OPS[5]), (OPS[2], OPS[6]), (OPS[1], OPS[2]), (OPS[3], OPS[4])]  # incl. the same completer kind with two different masks
    for shell in ("zsh", "bash", "fish", "simple"):
        for n in (0, 1, 2):
            for flags in itertools.product([(False, False), (True, False), (False, True), (True, True)], repeat=n):
                for ops in (opsets if shell != "simple" else [()]):
                    for same in ((False, True) if n == 2 and all(f[1] for f in flags) else (False,)):
                        jid = "render:%s:%d:%s:%s:%s" % (shell, n, "".join("%d%d" % (a, b) for a, b in flags), "+".join("%s%s" % (k, "" if m is None else m) for k, m in ops), int(same))
                        jobs.append({"id": jid, "kind": "render", "shell": shell, "items": n, "flags": [list(f) for f in flags], "ops": [list(o) for o in ops], "same_group": same})
    return jobs


def run_job(job, build):
    if job["kind"] == "quote":
        return run_quote_job(job, build)
    return run_render_job(job, build)


def finish(results, jobs, build, out, tier, seed, wall):
    from . import framework as fw
    st = fw.merge_stats(results)
    samples = []
    for r in results:
        if r.get("error"):
            out.inconc("job %s crashed: %s" % (r["job"], r["error"]))
        for w in r.get("inconclusive", []):
            out.inconc("%s: %s" % (r["job"], w))
        for s in r.get("samples", [])[:1]:
            if len(samples) < 14:
                samples.append(s)
        for c in r.get("cex", []):
            if c["kind"] == "quote-unsafe":
                out.violation("quote:" + c["bytes"], "Shell(%r) renders as %r: %s" % (c["input"], c["output"], c["why"]), c)
            elif c["kind"] in ("script-malformed", "candidate-count", "record-split"):
                key = finding_key(c) or ("%s:%s:%s" % (c["shell"], c["why"][:60], c["job"]))
                out.violation(key, "%s renderer, %d candidate(s), completers %s, empty strings %s: %s; output: %r" % (
                    c["shell"], c["items"], c["ops"], c["empty_atoms"], c["why"], c["output"]), c)
            else:
                out.violation("%s:%s" % (c["kind"], c.get("job")), "%s: %s" % (c["kind"], c.get("info")), c)
    cov = {
        "evaluations": st["queries"] + sum(r.get("obligations", 0) for r in results),
        "distinct_nontrivial": sum(r.get("nontrivial", 0) for r in results) + len([j for j in jobs if j["kind"] == "render"]),
        "rule": "quote: one case = one feasible path of Shell::fmt over symbolic bytes (non-trivial: constrains a byte); render: one case = one renderer run on a candidate/completer configuration, forking on the emptiness of the atoms",
        "samples": samples,
        "states": max(st["paths"], 1),
        "transitions": max(st["decisions"], 1),
        "traces_validated_against_impl": 0,
        "exhaustive": not out.inconclusive,
        "paths": st["paths"],
        "queries": {"total": st["queries"], "sat": st["sat"], "unsat": st["unsat"], "unknown": st["unknown"]},
        "solver_time_s": st["solver_s"],
        "obligations": sum(r.get("obligations", 0) for r in results),
        "bounds": {"quote_bytes": "every valid UTF-8 string of 0..=%d bytes" % (6 if tier == "quick" else 8),
                   "render": "0-2 candidates x {help, group} flags x completer lists of length 0-%d over {File, File+mask, Dir, Dir+mask, Raw, Nothing}; masks %r" % (1 if tier == "quick" else 2, MASKS)},
        "jobs": len(jobs),
        "functions_encoded": sorted(fw.merge_counts(results, "fn_hits")),
        "models_used": fw.merge_counts(results, "models_used"),
        "cuts": {"Shell::fmt on atoms": "in render jobs the quoting wrapper applied to an atom is recorded as a quoted segment; its byte-level correctness is the quote jobs' obligation"},
        "repo_src_hash": build.get("repo_hash"),
    }
    assumptions = [
        "reference lexers (single-quote word, directive shapes per shell) are written from the POSIX sh grammar and the documented completion protocols, in props/C15.py",
        "user-originated strings are atoms with a symbolic emptiness bit; file masks are three concrete strings including one with shell metacharacters",
        "sourcing the script in a real shell is not attempted; ShellComp::Raw scripts are exempt by definition",
    ]
    return {"tier": tier, "seed": seed, "level": "model_checking", "coverage": cov, "assumptions": assumptions}
