"""C04 - running a parser is total, terminating and pure.

  render:*     run_subparser on the corpus with the error path NOT cut: Message::render,
               summarize_missing, only_once, check_conflicts, textual_part and the Doc builders are
               executed from MIR (formatting through the core::fmt models; the typo suggester
               meta_youmean::suggest is cut).  Obligations: no panic path, no step/recursion bound
               hit, no process::exit; and purity: a second run of the same parser value on an equal
               State gives an equal result
  complete:*   State::check_complete (full-feature MIR) for output revisions 0/1/7/8/9 with and
               without an application name; candidate generation and the shell renderers are cut,
               the selection / indexing code is executed
  loop:*       termination of the repetition wrappers (many/some/count/last) with a
               nondeterministic inner parser (shared with C05)
  kernel:*     index arithmetic of ArgRangesIter::next, adjacent_scope, adjacently_available_from
               from an arbitrary symbolic state
Panics in the other checks' jobs are reported there as well; split_os_argument's panic freedom is
decided by C02's split jobs.
"""
import z3

from mirsym.engine import parse_callee, Unmodelled, ExecError, BoundExceeded, Panic, Infeasible, Exec
from mirsym.values import *
from mirsym.models import NONE, SOME, OK, ERR, rd, rda, val_eq
from mirsym import fmtmodels as FM
from . import tok, lemmas
from .tokdiff import TokOracle, run_tok_job, finish_tok, help_names
from .framework import Replayer
from .corpus import CORPUS

PROP = "C04"
FEATURE_SETS = ("none", "full")
GRAMMARS = ["g1", "g2", "p1", "p3", "c1", "c2", "o1", "o2", "a1", "a3", "k1", "k2", "k4", "kc", "v1", "e1", "j1", "h1", "h2", "k5", "k6", "am", "c5", "f1", "x1", "x2", "x4", "f3", "gd"]
LOOPS = ("many", "some", "count", "last")

RENDER_MODELS = dict(tok.TOK_MODELS)
RENDER_MODELS.update(FM.FMT_MODELS)
del RENDER_MODELS["Message::render"]


def m_suggest(ex, c, args):
    ex.cut_log.append(("suggest",))
    return NONE


RENDER_MODELS["meta_youmean::suggest"] = m_suggest
RENDER_MODELS["suggest"] = m_suggest

CUTS = {
    "meta_youmean::suggest": "typo suggestions cut (returns None) in the render jobs; its distance kernel damerau_levenshtein is executed separately (youmean jobs) on a symbolic typed word of <= 4 (quick) / 6 (thorough) bytes against declared ASCII and non-ASCII names",
    "meta_help::render_help": "help rendering replaced by an opaque document",
    "from_os_str::parse_os_str": "conversion = uninterpreted validity predicate",
    "env::var_os": "symbolic environment",
    "core::fmt": "format_args!/write!/format! interpreted by mirsym/fmtmodels.py; interned (token layer) strings print as a placeholder",
}


class RenderOracle(TokOracle):
    assumptions = [
        "every item vector (help items included) is allowed: no assumption beyond the tokenizer image",
        "text content of messages is not asserted here (C13/C15/C16 look at text); only that rendering returns normally",
    ]

    def judge(self, ex, g, words, cls, payload, state, report, out):
        out["rendered"] = out.get("rendered", 0) + (1 if cls == "stderr" else 0)


def install_placeholder_hooks(ex):
    """interned strings have no text: wherever they are appended to a rendered document they
    appear as a fixed placeholder (the text of messages is not what this check looks at)"""
    from mirsym.models import wr
    ph = FM.SYM_PLACEHOLDER

    def push_str(ex_, ref, v, s):
        wr(ref, (v if isinstance(v, str) else ph) + (s if isinstance(s, str) else ph))
        return UNIT
    ex.string_push_str = push_str
    ex.string_push = lambda ex_, ref, v, ch: (wr(ref, (v if isinstance(v, str) else ph) + (chr(ch) if isinstance(ch, int) else ph)), UNIT)[1]
    ex.sym_str_len = lambda ex_, v: len(ph.encode())


def run_render_job(job, build):
    return run_tok_job(job, build, CORPUS, RenderOracle(), max_validate=60, step_budget=1500000, models=RENDER_MODELS)


# ------------------------------------------------------------------------------------------------
# purity: two runs in one path

def run_pure_job(job, build):
    prog = tok.load_program(build, "none")
    ex = tok.new_exec(prog, models=RENDER_MODELS, step_budget=2000000)
    g = CORPUS[job["grammar"]]
    shape = tuple(job["shape"])
    out = {"stats": None, "cex": [], "inconclusive": [], "samples": [], "nontrivial": 0, "classes": {}, "pairs": 0}

    def harness(ex):
        parser = ex.call(parse_callee(g.builder), [])
        words = tok.gen_words_sharded(ex, sum(tok.FORM_ITEMS[f] for f in shape), g.decl, shape)
        items = tok.words_to_items(ex, words)
        pc = Cell(parser, "parser")
        res = []
        for _ in range(2):
            st = Cell(tok.mk_state(ex, items), "state")
            res.append(ex.call(parse_callee("OptionParser::run_subparser"), [Ref(pc, ()), Ref(st, ())]))
        return (words, parser, pc.v, res)

    def on_path(ex, r):
        if r.kind != "ok":
            return  # panics are the render jobs' business
        words, p0, p1, (ra, rb) = r.value
        out["pairs"] += 1
        if ex.pc:
            out["nontrivial"] += 1
        eq = val_eq(ex, ra, rb)
        bad = eq is False or (eq is not True and ex.prove(eq) is not None)
        if bad:
            m = ex.model()
            cz = tok.Concretizer(ex, m)
            out["cex"].append({"kind": "second-run-differs", "grammar": job["grammar"], "argv": cz.argv(words), "info": "run 1: %r / run 2: %r" % (ra, rb)})
    try:
        ex.explore(harness, on_path, max_paths=100000)
    except Unmodelled as e:
        out["inconclusive"].append("UNMODELLED %s [%s]" % (e, "/".join(ex.callstack[-3:])))
    except BoundExceeded as e:
        out["inconclusive"].append("BOUND %s" % e)
    except ExecError as e:
        out["inconclusive"].append("EXEC-ERROR %s [%s]" % (e, "/".join(ex.callstack[-3:])))
    out["stats"] = dict(ex.stats)
    out["models_used"] = dict(ex.model_hits)
    out["fn_hits"] = dict(ex.fn_hits)
    return out


# ------------------------------------------------------------------------------------------------
# completion renderer selection

def run_complete_job(job, build):
    prog = tok.load_program(build, "full")
    models = dict(RENDER_MODELS)

    def m_complete(ex, c, args):
        return (Seq(()), Seq(()))

    def m_render(ex, c, args):
        return OK("")
    models["Complete::complete"] = m_complete
    for k in ("render_test", "render_simple", "render_zsh", "render_bash", "render_fish"):
        models[k] = m_render
        models["complete_shell::" + k] = m_render
        models["complete_gen::" + k] = m_render
    ex = tok.new_exec(prog, models=models, step_budget=400000)
    shape = tuple(job["shape"])
    g = CORPUS["g1"]
    out = {"stats": None, "cex": [], "inconclusive": [], "samples": [], "nontrivial": 0, "classes": {}, "obligations": 0}
    L = prog.layout

    def harness(ex):
        words = tok.gen_words_sharded(ex, sum(tok.FORM_ITEMS[f] for f in shape), g.decl, shape)
        items = tok.words_to_items(ex, words)
        rev = ex.fresh("rev", 64)
        ex.assume(z3.Or(*[rev == r for r in (0, 1, 7, 8, 9)]))
        named = tok.choose_free(ex, 2, "named") == 1
        fl = L.adts["Complete"]["fields"]
        d = {"comps": Seq(()), "output_rev": rev, "no_pos_ahead": False}
        comp = SOME(Adt("Complete", 0, tuple(d[f] for f in fl)))
        st = tok.mk_state(ex, items, path=(("app",) if named else ()), comp=comp)
        res = ex.call(parse_callee("State::check_complete"), [Ref(Cell(st, "state"), ())])
        return (words, rev, named, res)

    def on_path(ex, r):
        out["obligations"] += 1
        if ex.pc:
            out["nontrivial"] += 1
        if r.kind == "panic":
            m = ex.model()
            cz = tok.Concretizer(ex, m)
            words = ex.notes_words
            rv = [v for v in m.decls() if v.name().startswith("rev!")]
            revv = m[rv[0]].as_long() if rv else None
            nm = [v for v in m.decls() if v.name().startswith("named!")]
            named = bool(m[nm[0]].as_long()) if nm else False
            out["cex"].append({"kind": "check_complete-panics", "argv": cz.argv(words), "rev": revv, "named": named, "info": str(r.info)})
        elif r.kind == "halt":
            out["cex"].append({"kind": "check_complete-exits", "argv": None, "rev": None, "named": None, "info": "process::exit(%r)" % (r.value,)})
        elif len(out["samples"]) < 1:
            words, rev, named, res = r.value
            out["samples"].append({"shape": list(shape), "result": "Some" if res.var == 1 else "None", "named": named})

    orig = tok.gen_words_sharded

    def gen_and_note(ex_, n, decl, sh, allow_dd=True):
        w = orig(ex_, n, decl, sh, allow_dd)
        ex_.notes_words = w
        return w
    tok.gen_words_sharded = gen_and_note
    try:
        ex.explore(harness, on_path, max_paths=100000)
    except Unmodelled as e:
        out["inconclusive"].append("UNMODELLED %s [%s]" % (e, "/".join(ex.callstack[-3:])))
    except BoundExceeded as e:
        out["inconclusive"].append("BOUND %s" % e)
    except ExecError as e:
        out["inconclusive"].append("EXEC-ERROR %s [%s]" % (e, "/".join(ex.callstack[-3:])))
    finally:
        tok.gen_words_sharded = orig
    out["stats"] = dict(ex.stats)
    out["models_used"] = dict(ex.model_hits)
    out["fn_hits"] = dict(ex.fn_hits)
    # native confirmation: run_inner with the completion marker (the public way to reach check_complete)
    pan = [c for c in out["cex"] if c["kind"] == "check_complete-panics" and c["argv"] is not None]
    if pan:
        rp = Replayer(build["sets"]["full"]["replay"])
        cases = []
        for c in pan:
            argv = ["--bpaf-complete-rev=%d" % c["rev"]] + c["argv"]
            cases.append(("g1n" if c["named"] else "g1", argv, {}))
        got = rp.run(cases)
        for c, (cls, pay) in zip(pan, got):
            c["native"] = [cls, pay[:300]]
            c["reproduced"] = cls == "panic"
            if c["rev"] == 9 and not c["named"]:
                c["finding_key"] = "completion-rev9-without-application-name"
    return out


# ------------------------------------------------------------------------------------------------
# kernels from an arbitrary state

def run_kernel_job(job, build):
    prog = tok.load_program(build, "none")
    models = dict(tok.TOK_MODELS)
    lemmas.install_nondet(models, ["Missing"])
    ex = tok.new_exec(prog, models=models, step_budget=600000)
    shape = tuple(job["shape"])
    which = job["which"]
    out = {"stats": None, "cex": [], "inconclusive": [], "samples": [], "nontrivial": 0, "obligations": 0}

    def harness(ex):
        st, words, pres, (lo, hi) = lemmas.sym_state(ex, shape, tok.Decl("a", "b"))
        n = len(pres)
        ref = Ref(Cell(st, "state"), ())
        if which == "adjacently_available_from":
            s = ex.fresh("start", 64)
            ex.assume(z3.ULE(s, n))
            r = ex.call(parse_callee("State::adjacently_available_from"), [ref, s])
            return ("range", r, s, pres)
        if which == "adjacent_scope":
            st2, _, pres2, _ = lemmas.sym_state(ex, shape, tok.Decl("a", "b"))
            # `original` shares the items and the scope start (as in ParseAdjacent::eval)
            f1 = lemmas.fields_of(ex, st)
            f2 = lemmas.fields_of(ex, st2)
            order = ex.prog.layout.adts["State"]["fields"]
            f2["items"] = f1["items"]
            st2 = Adt("State", 0, tuple(f2[k] for k in order))
            r = ex.call(parse_callee("State::adjacent_scope"), [ref, Ref(Cell(st2, "orig"), ())])
            return ("optrange", r, None, pres)
        if which == "adjacent_eval":
            # ParseAdjacent::eval itself, inner parser nondeterministic, scope arbitrary (as inside an
            # adjacent command or another adjacent group)
            w = Adt("ParseAdjacent", 0, (lemmas.NONDET,))
            r = ex.call(parse_callee("<P as Parser<T>>::eval"), [Ref(Cell(w, "adj"), ()), ref])
            post = rd(ref)
            return ("adj", (r, post), None, pres)
        if which == "ranges_next":
            L = ex.prog.layout
            it = Adt("ArgRangesIter", 0, tuple({"args": ref, "width": 1 + tok.choose_free(ex, 2, "width"), "cur": 0}[f] for f in L.adts["ArgRangesIter"]["fields"]))
            cell = Cell(it, "iter")
            k = 0
            while True:
                r = ex.call(parse_callee("<ArgRangesIter<'_> as Iterator>::next"), [Ref(cell, ())])
                k += 1
                if r.var == 0 or k > n + 3:
                    break
            return ("iter", k, None, pres)
        raise ValueError(which)

    def on_path(ex, r):
        out["obligations"] += 1
        if ex.pc:
            out["nontrivial"] += 1
        if r.kind != "ok":
            out["cex"].append({"kind": "kernel-panics:" + which, "shape": list(shape), "info": str(r.info), "model": str(ex.model())[:800]})
            return
        kind, val, s, pres = r.value
        n = len(pres)
        if kind == "range":
            a, b = val.fields
            cond = z3.And(val_eq(ex, a, s), z3.ULE(a, b) if not isinstance(b, int) else True)
            okb = ex.binop("Le", b, n, "usize")
            if (okb is False) or (okb is not True and ex.prove(okb) is not None):
                out["cex"].append({"kind": "kernel-range-out-of-bounds:" + which, "shape": list(shape), "info": repr(val)})
        elif kind == "adj":
            res, post = val
            inv = lemmas.invariant(ex, post)
            if inv is False or (inv is not True and ex.prove(inv) is not None):
                out["cex"].append({"kind": "kernel-invariant-broken:" + which, "shape": list(shape), "info": "representation invariant does not hold after ParseAdjacent::eval"})
        elif kind == "iter" and val > n + 2:
            out["cex"].append({"kind": "kernel-nontermination:" + which, "shape": list(shape), "info": "ArgRangesIter yields more than len+2 times"})
    try:
        ex.explore(harness, on_path, max_paths=200000)
    except Unmodelled as e:
        out["inconclusive"].append("UNMODELLED %s [%s]" % (e, "/".join(ex.callstack[-3:])))
    except BoundExceeded as e:
        out["inconclusive"].append("BOUND %s (%s)" % (e, which))
    except ExecError as e:
        out["inconclusive"].append("EXEC-ERROR %s [%s]" % (e, "/".join(ex.callstack[-3:])))
    out["stats"] = dict(ex.stats)
    out["models_used"] = dict(ex.model_hits)
    out["fn_hits"] = dict(ex.fn_hits)
    return out


# ------------------------------------------------------------------------------------------------

def make_jobs(tier, seed, build):
    jobs = []
    nw = 2 if tier == "quick" else 3
    for gname in GRAMMARS:
        g = CORPUS[gname]
        shapes = tok.all_shapes_by_words(nw if gname != "e1" else nw - 1, g.decl)
        if gname in ("k1", "k5", "k6", "kc"):
            # adjacent groups loop over scopes: one more word (reduced forms) - the shortest lines on which a
            # block is followed by a consumed item and something else have three words
            shapes = tok.all_shapes_by_words(nw + 1, g.decl, full_upto=nw)
        for shape in shapes:
            jobs.append({"id": "render:%s:%s" % (gname, ",".join(shape)), "kind": "render", "grammar": gname, "shape": shape, "fs": "none"})
    for gname in ("g1", "c1", "a3", "k1"):
        g = CORPUS[gname]
        for shape in tok.all_shapes_by_words(1 if tier == "quick" else 2, g.decl):
            jobs.append({"id": "pure:%s:%s" % (gname, ",".join(shape)), "kind": "pure", "grammar": gname, "shape": shape})
    g = CORPUS["g1"]
    for shape in tok.all_shapes_by_words(2 if tier == "quick" else 3, g.decl):
        if shape:
            jobs.append({"id": "complete:%s" % ",".join(shape), "kind": "complete", "shape": shape})
    from . import C05
    for j in C05.make_jobs(tier, seed, build):
        if j["kind"] == "wrap" and j["which"] in LOOPS:
            j = dict(j)
            j["id"] = "loop:" + j["id"]
            j["kind"] = "loop"
            jobs.append(j)
    for la in range(1, (4 if tier == "quick" else 6) + 1):
        for gname, name in YOUMEAN_NAMES:
            jobs.append({"id": "youmean:%d:%s" % (la, name), "kind": "youmean", "la": la, "grammar": gname, "name": name, "weight": la})
    import itertools
    for gname in PROLOGUE_GRAMMARS:
        for n in (1, 2):
            for lens in itertools.product(range(1, 5), repeat=n):
                if sum(lens) > (5 if tier == "quick" else 7):
                    continue
                jobs.append({"id": "prologue:%s:%s" % (gname, ",".join(map(str, lens))), "kind": "prologue", "grammar": gname, "lens": list(lens), "shape": ()})
    d = tok.Decl("a", "b")
    for which in ("adjacently_available_from", "adjacent_scope", "ranges_next", "adjacent_eval"):
        for n in range(0, (2 if tier == "quick" else 3) + 1):
            for sh in tok.all_shapes(n, d):
                if any(f in ("short=", "shortv", "long=") for f in sh):
                    continue
                if which == "adjacent_eval" and (any(f != "word" for f in sh) or n > 2):
                    continue  # the inner parser is nondeterministic: item kinds are irrelevant; 2 items max
                jobs.append({"id": "kernel:%s:%s" % (which, ",".join(sh)), "kind": "kernel", "which": which, "shape": sh,
                             "weight": 100 if (which == "adjacent_eval" and n == 2) else 0})
    return jobs


YOUMEAN_NAMES = [("c1", "add"), ("c1", "--verbose"), ("c1", "rm"), ("un", "--gr\u00f6\u00dfe"), ("un", "s\u00fcd")]
YOUMEAN_ALPHA = [0x61, 0x64, 0x2D, 0xC3, 0xBC, 0x9F]  # a d - and the bytes of u-umlaut / sharp s


def run_youmean_job(job, build):
    """the typo suggester's distance kernel (cut in the render jobs) on a symbolic typed word: valid
    UTF-8 of `la` bytes over YOUMEAN_ALPHA against one declared name; no panic, no bound exhausted"""
    from mirsym import textmodels as TM
    from .C02 import new_text_exec
    prog = tok.load_program(build, "none")
    ex = new_text_exec(prog, step_budget=3000000)
    la, gname, name = job["la"], job["grammar"], job["name"]
    out = {"stats": None, "cex": [], "inconclusive": [], "samples": [], "nontrivial": 0, "obligations": 0}

    def harness(ex):
        bs = [ex.fresh("b", 8) for _ in range(la)]
        for b in bs:
            ex.assume(z3.Or(*[b == a for a in YOUMEAN_ALPHA]))
        if not TM.utf8_valid(ex, bs):
            raise Infeasible()
        ex.youmean_bytes = bs
        a = Ref(Cell(BStr(tuple(bs)), "a"), ())
        b = Ref(Cell(name, "b"), ())
        return ex.call(parse_callee("meta_youmean::damerau_levenshtein"), [a, b])

    def on_path(ex, r):
        out["obligations"] += 1
        if ex.pc:
            out["nontrivial"] += 1
        if r.kind != "ok":
            m = ex.model()
            text = bytes(m.eval(b, model_completion=True).as_long() for b in ex.youmean_bytes)
            out["cex"].append({"kind": "suggest-panics", "info": str(r.info), "grammar": gname, "argv_hex": [text.hex()], "shape": [name, text.hex()]})
        elif len(out["samples"]) < 1:
            m = ex.model()
            text = bytes(m.eval(b, model_completion=True).as_long() for b in ex.youmean_bytes)
            out["samples"].append({"typed": text.decode("utf-8", "replace"), "name": name, "distance": str(r.value)})
    try:
        ex.explore(harness, on_path, max_paths=200000)
    except (Unmodelled, BoundExceeded, ExecError) as e:
        out["inconclusive"].append("%s %s [%s]" % (type(e).__name__, e, "/".join(ex.callstack[-3:])))
    out["stats"] = dict(ex.stats)
    out["models_used"] = dict(ex.model_hits)
    out["fn_hits"] = dict(ex.fn_hits)
    if out["cex"]:
        from .framework import Replayer
        got = Replayer(build["sets"]["none"]["replay"]).run([(c["grammar"], [bytes.fromhex(h) for h in c["argv_hex"]], {}) for c in out["cex"]])
        for c, (cls, pay) in zip(out["cex"], got):
            c["native"] = [cls, pay[:300]]
            c["reproduced"] = cls == "panic"
    return out


PROLOGUE_GRAMMARS = {"am": "-ab=x", "g1": "-ab=0"}


def run_prologue_job(job, build):
    """run_inner itself on argv *bytes* (short-name table, State::construct with cluster disambiguation, the
    ambiguity report rendered through Message::render and the core::fmt models); run_subparser is cut.
    Obligation: no panic, no bound exhausted."""
    from .C02 import new_text_exec
    from mirsym.models import rda as _rda
    prog = tok.load_program(build, "none")
    ex = new_text_exec(prog, step_budget=1500000)
    ex.models = dict(ex.models)
    ex.models.update(FM.FMT_MODELS)
    ex.models["OptionParser::run_subparser"] = lambda ex_, c, args: Opaque("proceed", (_rda(args[1]),))
    g = CORPUS[job["grammar"]]
    lens = job["lens"]
    alpha = [ord(c) for c in PROLOGUE_GRAMMARS[job["grammar"]]]
    out = {"stats": None, "cex": [], "inconclusive": [], "samples": [], "nontrivial": 0, "obligations": 0}

    def harness(ex):
        LA = ex.prog.layout
        parser = ex.call(parse_callee(g.builder), [])
        words = []
        for ln in lens:
            bs = [ex.fresh("b", 8) for _ in range(ln)]
            for b in bs:
                ex.assume(z3.Or(*[b == a for a in alpha]))
            words.append(bs)
        ex.c04_words = words
        d = {"items": PyIter("vec_into", Seq(tuple(BStr(tuple(w)) for w in words)), 0), "name": NONE, "c_rev": NONE}
        args = Adt("Args", 0, tuple(d[f] for f in LA.adts["Args"]["fields"]))
        return ex.call(parse_callee("OptionParser::run_inner"), [Ref(Cell(parser, "p"), ()), args])

    def on_path(ex, r):
        out["obligations"] += 1
        if ex.pc:
            out["nontrivial"] += 1
        if r.kind != "ok":
            m = ex.model()
            argv = [bytes(m.eval(b, model_completion=True).as_long() for b in w) for w in ex.c04_words]
            out["cex"].append({"kind": "run_inner-panics", "info": str(r.info), "grammar": job["grammar"], "argv_hex": [a.hex() for a in argv],
                               "shape": [a.decode("utf-8", "replace") for a in argv]})
    try:
        ex.explore(harness, on_path, max_paths=100000)
    except (Unmodelled, BoundExceeded, ExecError) as e:
        out["inconclusive"].append("%s %s [%s]" % (type(e).__name__, e, "/".join(getattr(e, "stack", None) or ex.callstack[-3:])))
    out["stats"] = dict(ex.stats)
    out["models_used"] = dict(ex.model_hits)
    out["fn_hits"] = dict(ex.fn_hits)
    if out["cex"]:
        got = Replayer(build["sets"]["none"]["replay"]).run([(c["grammar"], [bytes.fromhex(h) for h in c["argv_hex"]], {}) for c in out["cex"]])
        for c, (cls, pay) in zip(out["cex"], got):
            c["native"] = [cls, pay[:300]]
            c["reproduced"] = cls == "panic"
    return out


def run_job(job, build):
    k = job["kind"]
    if k == "prologue":
        return run_prologue_job(job, build)
    if k == "youmean":
        return run_youmean_job(job, build)
    if k == "render":
        return run_render_job(job, build)
    if k == "pure":
        return run_pure_job(job, build)
    if k == "complete":
        return run_complete_job(job, build)
    if k == "loop":
        from . import C05
        return C05.run_wrap_job(job, build)
    return run_kernel_job(job, build)


def finish(results, jobs, build, out, tier, seed, wall):
    from . import framework as fw
    byid = {j["id"]: j for j in jobs}
    render = [r for r in results if byid[r["job"]]["kind"] == "render"]
    other = [r for r in results if byid[r["job"]]["kind"] != "render"]
    ev = finish_tok(PROP, render, [j for j in jobs if j["kind"] == "render"], build, out, tier, seed, wall, RenderOracle(), CORPUS,
                    {"render_argv_words": "0..=%d" % (2 if tier == "quick" else 3), "grammars": GRAMMARS,
                     "completion": "revisions {0,1,7,8,9} x {name, no name} x argv words 1..=%d" % (2 if tier == "quick" else 3),
                     "loops": "many/some/count/last with a nondeterministic inner parser, items <= %d" % (1 if tier == "quick" else 2)})
    ev["coverage"]["cuts"] = CUTS
    st = fw.merge_stats(other)
    for r in other:
        kind = byid[r["job"]]["kind"]
        if r.get("error"):
            out.inconc("job %s crashed: %s" % (r["job"], r["error"]))
        for w in r.get("inconclusive", []):
            out.inconc("%s: %s" % (r["job"], w))
        for c in r.get("cex", []):
            what = "%s: %s" % (c["kind"], c.get("info"))
            if kind == "complete" and c["kind"] == "check_complete-panics":
                what = "completion with output revision %s, %s application name, argv %r panics: %s (native: %s)" % (
                    c["rev"], "with" if c["named"] else "without", c["argv"], c["info"], c.get("native"))
                if c.get("reproduced"):
                    out.violation(c.get("finding_key") or ("complete:%s:%s" % (c["rev"], c["named"])), what, c)
                else:
                    out.inconc("NONREPRO " + what)
            elif kind == "prologue":
                what = "run_inner on grammar %s argv=%r panics: %s (native: %s)" % (c["grammar"], c["shape"], c["info"], c.get("native"))
                if c.get("reproduced"):
                    out.violation("prologue:%s:%s" % (c["grammar"], ",".join(c["argv_hex"])), what, c)
                else:
                    out.inconc("NONREPRO " + what)
            elif kind == "youmean":
                what = "typo suggestion for the unknown item %r against the declared name %r panics: %s (native, grammar %s: %s)" % (
                    bytes.fromhex(c["argv_hex"][0]).decode("utf-8", "replace"), c["shape"][0], c["info"], c["grammar"], c.get("native"))
                if c.get("reproduced"):
                    out.violation("youmean:%s:%s" % (c["shape"][0], c["argv_hex"][0]), what, c)
                else:
                    out.inconc("NONREPRO " + what)
            elif kind == "loop":
                if c["kind"].startswith("panic"):
                    out.violation("loop:" + c["kind"] + ":" + ",".join(c["shape"]), what, c)
                # contract violations of the wrappers are C05/C06's business
            else:
                out.violation("%s:%s" % (c["kind"], ",".join(map(str, c.get("shape", c.get("argv") or [])))), what, c)
    cov = ev["coverage"]
    cov["other_jobs"] = {k: len([j for j in jobs if j["kind"] == k]) for k in ("pure", "complete", "loop", "kernel", "youmean", "prologue")}
    cov["other_paths"] = st["paths"]
    cov["purity_pairs"] = sum(r.get("pairs", 0) for r in other)
    cov["evaluations"] += st["queries"]
    cov["distinct_nontrivial"] += sum(r.get("nontrivial", 0) for r in other)
    cov["states"] += st["paths"]
    cov["transitions"] += st["decisions"]
    cov["solver_time_s"] = round(cov["solver_time_s"] + st["solver_s"], 2)
    cov["jobs"] = len(jobs)
    cov["functions_encoded"] = sorted(set(cov["functions_encoded"]) | set(fw.merge_counts(other, "fn_hits")))
    ev["assumptions"] += [
        "termination = no path exhausts the step budget (1.5M MIR statements) or the call-depth budget (400); exhausting either is reported as inconclusive",
        "purity: the executor has no hidden state; any access to statics / interior mutability / time / randomness would be an unmodelled callee",
        "markdown / html / manpage generation and console rendering are not part of this check (C13/C16 kernels)",
    ]
    return ev
