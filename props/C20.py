"""C20 - optional cargo features do not change parsing (relational across two MIR dumps).

The same symbolic argv is executed through run_subparser of the `{}` build and of the
`{autocomplete, docgen, batteries}` build (completion state absent, as for every argv without
the completion marker).  For every feasible path A of the first build, the second build is
explored under A's path condition; on every joint path the solver must show equal outcome class,
equal value, equal final consumption ledger and equal Message at the render cut.
`derive` adds no code to the runtime crate; the colour features only touch Color::default /
console colouring and print_message (supporting evidence: diff of the MIR dumps, not a solver
result) - coloured rendering itself is outside the claim.
"""
import z3

from mirsym.engine import parse_callee, Unmodelled, ExecError, BoundExceeded, Panic, Infeasible
from mirsym.values import *
from mirsym.models import val_eq
from . import tok, lemmas
from .tokdiff import help_names, assume_not_named, fmt_debug
from .framework import Replayer
from .corpus import CORPUS

PROP = "C20"
FEATURE_SETS = ("none", "full")
TEXT_GRAMMARS = ("gd",)
GRAMMARS = ["g1", "g2", "p1", "p3", "c1", "c3", "o1", "o2", "o3", "a1", "a3", "k1", "k2", "k4", "v1", "h1", "kc", "hr", "hd", "f3", "f1", "x1", "x2", "x4", "k5", "k6", "cr", "c8", "gd", "eg"]


def norm_msg(ex, v):
    """Message payload made comparable across builds: layouts of State differ, Messages do not"""
    return v


PROLOGUE_GRAMMARS = {"am": "-ab=x", "g1": "-ab=0", "c1": "-vt=a"}


def run_prologue_job(job, build):
    """text-layer clause: `run_inner` itself (short-name table, State::construct on argv *bytes*, the
    ambiguity report) executed from both MIR dumps on the same symbolic bytes, `run_subparser` and
    `Message::render` cut.  Both builds must either report the same Message or hand the same item
    vector to run_subparser."""
    from .C02 import new_text_exec
    from mirsym import textmodels as TM
    from mirsym.models import NONE, rda
    progs = {fs: tok.load_program(build, fs) for fs in FEATURE_SETS}
    exs = {}
    for fs in FEATURE_SETS:
        ex = new_text_exec(progs[fs], step_budget=600000)
        ex.models = dict(ex.models)
        ex.models["OptionParser::run_subparser"] = lambda ex_, c, args: Opaque("proceed", (rda(args[1]),))
        ex.models["Message::render"] = lambda ex_, c, args: Opaque("rendered", (args[0],))
        exs[fs] = ex
    ea, eb = exs["none"], exs["full"]
    eb.strtab, eb.strrev, eb.axioms = ea.strtab, ea.strrev, ea.axioms
    g = CORPUS[job["grammar"]]
    lens = job["lens"]
    alpha = [ord(c) for c in PROLOGUE_GRAMMARS[job["grammar"]]]
    out = {"stats": None, "cex": [], "inconclusive": [], "samples": [], "nontrivial": 0, "classes": {}, "joint": 0}

    def harness(ex):
        ex.fresh_n = 0
        LA = ex.prog.layout
        parser = ex.call(parse_callee(g.builder), [])
        words = []
        for ln in lens:
            bs = [ex.fresh("b", 8) for _ in range(ln)]
            for b in bs:
                ex.assume(z3.Or(*[b == a for a in alpha]))
            words.append(bs)
        d = {"items": PyIter("vec_into", Seq(tuple(BStr(tuple(w)) for w in words)), 0), "name": NONE, "c_rev": NONE}
        args = Adt("Args", 0, tuple(d[f] for f in LA.adts["Args"]["fields"]))
        res = ex.call(parse_callee("OptionParser::run_inner"), [Ref(Cell(parser, "p"), ()), args])
        return (words, res)

    def view(ex, res):
        """('proceed', items) | ('report', message)"""
        if type(res) is Opaque and res.tag == "proceed":
            f = lemmas.fields_of(ex, res.payload[0])
            return ("proceed", (f["items"], Seq(tuple(x.var for x in f["item_state"].items)), f["remaining"], f["scope"]))
        if type(res) is Adt and res.ty == "Result" and res.var == 1 and type(res.fields[0]) is Opaque and res.fields[0].tag == "rendered":
            return ("report", res.fields[0].payload[0])
        return ("other", res)

    def on_a(ex, ra):
        if ra.kind != "ok":
            out["inconclusive"].append("panic on a `{}` path: %r" % (ra.info,))
            return
        wa, resa = ra.value
        ka, va = view(ea, resa)
        out["classes"][ka] = out["classes"].get(ka, 0) + 1
        if ea.pc:
            out["nontrivial"] += 1
        eb.path_axioms = list(ea.pc)

        def on_b(exb, rb):
            out["joint"] += 1
            bad = None
            if rb.kind != "ok":
                kb, vb = "panic", None
                bad = "full-feature build panics: %r" % (rb.info,)
            else:
                wb, resb = rb.value
                kb, vb = view(eb, resb)
                if ka != kb:
                    bad = "run_inner %ss in the `{}` build and %ss in the full-feature build" % (ka, kb)
                elif ka == "other":
                    out["inconclusive"].append("unexpected run_inner result %r" % (resa,))
                else:
                    eq = val_eq(eb, va, vb)
                    if eq is not True:
                        m = eb.prove(eq) if eq is not False else eb.model()
                        if m is not None:
                            if eq is not False:
                                eb.solver.add(z3.Not(eq))
                            bad = "%s differs between the builds" % ("item vector" if ka == "proceed" else "reported Message")
            m = eb.model()
            argv = ["".join(chr(m.eval(b, model_completion=True).as_long()) for b in w) for w in wa]
            if bad:
                out["cex"].append({"kind": "feature-dependent", "grammar": job["grammar"], "shape": ["bytes%d" % n for n in lens], "argv": argv, "env": {},
                                   "predicted": [[ka, None], [kb, None]], "expected": "equal", "why": bad})
            elif len(out["samples"]) < 2:
                out["samples"].append({"grammar": job["grammar"], "argv": argv, "class": "run_inner " + ka, "both_builds_agree": True})
        eb.explore(harness, on_b, max_paths=5000)

    try:
        ea.explore(harness, on_a, max_paths=100000)
    except Unmodelled as e:
        out["inconclusive"].append("UNMODELLED %s [%s]" % (e, "/".join((eb.callstack or ea.callstack)[-3:])))
    except BoundExceeded as e:
        out["inconclusive"].append("BOUND %s" % e)
    except ExecError as e:
        out["inconclusive"].append("EXEC-ERROR %s [%s]" % (e, "/".join((eb.callstack or ea.callstack)[-3:])))
    st = dict(ea.stats)
    for k, v in eb.stats.items():
        st[k] = st.get(k, 0) + v
    out["stats"] = st
    out["models_used"] = {k: ea.model_hits.get(k, 0) + eb.model_hits.get(k, 0) for k in set(ea.model_hits) | set(eb.model_hits)}
    out["fn_hits"] = {k: ea.fn_hits.get(k, 0) + eb.fn_hits.get(k, 0) for k in set(ea.fn_hits) | set(eb.fn_hits)}
    if out["cex"]:
        ra_ = Replayer(build["sets"]["none"]["replay"]).run([(c["grammar"], c["argv"], {}) for c in out["cex"]])
        rb_ = Replayer(build["sets"]["full"]["replay"]).run([(c["grammar"], c["argv"], {}) for c in out["cex"]])
        for c, x, y in zip(out["cex"], ra_, rb_):
            c["native"] = [list(x), list(y)]
            c["reproduced"] = tuple(x) != tuple(y)
    return out


CONSOLE_ALPHA = [0x60, 0x0A, 0x61, 0x20]
CONSOLE_PREFIXES = ["", "\n\n```\n", "a\n\n```\n", "\n    ", "a\n\n"]


def run_console_job(job, build):
    """help *text*: Doc::render_console (with the Splitter, which has docgen-only code) executed from both
    MIR dumps on the same help-item document - a definition list whose body starts with a concrete
    structural prefix followed by symbolic bytes over {backquote, newline, a, space}; the rendered
    texts must be equal byte for byte"""
    from . import C13
    from mirsym import textmodels as TM
    progs = {fs: tok.load_program(build, fs) for fs in FEATURE_SETS}
    ea, eb = C13.text_exec(progs["none"]), C13.text_exec(progs["full"])
    n, prefix = job["n"], job["prefix"]
    out = {"stats": None, "cex": [], "inconclusive": [], "samples": [], "nontrivial": 0, "classes": {}, "joint": 0}
    # two items, like every real help listing (the item under test is followed by the `-h` line, so nothing
    # depends on how the very end of a document is trimmed)
    template = C13.TEMPLATES["deflist2"]

    def harness(ex):
        ex.fresh_n = 0
        L = ex.prog.layout
        bs = [ex.fresh("t", 8) for _ in range(n)]
        for b in bs:
            ex.assume(z3.Or(*[b == a for a in CONSOLE_ALPHA]))
        body = list(prefix.encode()) + bs
        tokens, payload = [], []
        texts = {2: list(b"-a"), 3: [], 6: body, 9: list(b"-h"), 12: list(b"help")}
        for i, (kind, arg) in enumerate(template):
            if kind == "T":
                t = texts[i]
                payload.extend(t)
                vi = L.variant_index("Token", "Text")
                fl = L.adts["Token"]["variants"][vi][1]
                d = {"bytes": len(t), "style": Adt("Style", L.variant_index("Style", arg), ())}
                tokens.append(Adt("Token", vi, tuple(d[f] for f in fl)))
            else:
                vn = "BlockStart" if kind == "S" else "BlockEnd"
                tokens.append(Adt("Token", L.variant_index("Token", vn), (Adt("Block", L.variant_index("Block", arg), ()),)))
        dd = {"payload": BStr(tuple(payload)), "tokens": Seq(tuple(tokens))}
        doc = Adt("Doc", 0, tuple(dd[f] for f in L.adts["Doc"]["fields"]))
        mono = Adt("Color", L.variant_index("Color", "Monochrome"), ())
        res = ex.call(parse_callee("Doc::render_console"), [Ref(Cell(doc, "doc"), ()), True, mono, 100])
        return (bs, res)

    def on_a(ex, ra):
        if ra.kind != "ok":
            out["inconclusive"].append("panic on a `{}` path: %r" % (ra.info,))
            return
        bsa, resa = ra.value
        if ea.pc:
            out["nontrivial"] += 1
        eb.path_axioms = list(ea.pc)

        def on_b(exb, rb):
            out["joint"] += 1
            bad = None
            if rb.kind != "ok":
                bad = "full-feature build panics: %r" % (rb.info,)
            else:
                bsb, resb = rb.value
                xa, xb = TM.to_bstr(resa).b, TM.to_bstr(resb).b
                if len(xa) != len(xb):
                    bad = "rendered help text has %d bytes in the `{}` build and %d in the full-feature build" % (len(xa), len(xb))
                else:
                    eq = val_eq(eb, Seq(tuple(xa)), Seq(tuple(xb)))
                    if eq is not True:
                        m = eb.prove(eq) if eq is not False else eb.model()
                        if m is not None:
                            if eq is not False:
                                eb.solver.add(z3.Not(eq))
                            bad = "rendered help text differs between the builds"
            m = eb.model()
            text = prefix + "".join(chr(m.eval(b, model_completion=True).as_long()) for b in bsa)
            if bad:
                out["cex"].append({"kind": "help-text-feature-dependent", "grammar": "probe:help:" + text.encode().hex(), "shape": ["console", prefix, n], "argv": [], "env": {},
                                   "help_text": text, "predicted": [["stdout", None], ["stdout", None]], "expected": "equal", "why": bad})
            elif len(out["samples"]) < 1:
                out["samples"].append({"help_text": text, "class": "console rendering", "both_builds_agree": True})
        eb.explore(harness, on_b, max_paths=5000)

    try:
        ea.explore(harness, on_a, max_paths=100000)
    except (Unmodelled, BoundExceeded, ExecError) as e:
        out["inconclusive"].append("%s %s [%s]" % (type(e).__name__, e, "/".join(getattr(e, "stack", None) or (eb.callstack or ea.callstack)[-3:])))
    st = dict(ea.stats)
    for k, v in eb.stats.items():
        st[k] = st.get(k, 0) + v
    out["stats"] = st
    out["models_used"] = {k: ea.model_hits.get(k, 0) + eb.model_hits.get(k, 0) for k in set(ea.model_hits) | set(eb.model_hits)}
    out["fn_hits"] = {k: ea.fn_hits.get(k, 0) + eb.fn_hits.get(k, 0) for k in set(ea.fn_hits) | set(eb.fn_hits)}
    if out["cex"]:
        ra_ = Replayer(build["sets"]["none"]["replay"]).run([(c["grammar"], [], {}) for c in out["cex"]])
        rb_ = Replayer(build["sets"]["full"]["replay"]).run([(c["grammar"], [], {}) for c in out["cex"]])
        for c, x, y in zip(out["cex"], ra_, rb_):
            c["native"] = [list(x), list(y)]
            c["reproduced"] = tuple(x) != tuple(y)
            if "```" in c["help_text"]:
                c["finding_key"] = "fenced-code-block-in-help-text-only-recognised-with-docgen"
    return out


def run_job(job, build):
    if job.get("kind") == "console":
        return run_console_job(job, build)
    if job.get("kind") == "prologue":
        return run_prologue_job(job, build)
    pa = tok.load_program(build, "none")
    pb = tok.load_program(build, "full")
    ea = tok.new_exec(pa, step_budget=800000)
    if job["grammar"] in TEXT_GRAMMARS:
        # the autocomplete build runs Doc::to_completion on group-help documents even when no completion was
        # requested: executed from MIR here (first_line + monochrome) instead of the token layer's cut
        from . import C14, C12
        from mirsym import textmodels as TM
        eb = tok.new_exec(pb, models=C14.comp_models(), step_budget=3000000)
        TM.install_hooks(eb)
        eb.debug_repr = C12.stable_repr
    else:
        eb = tok.new_exec(pb, step_budget=1200000)
    # one intern table and one axiom list for both executors
    eb.strtab, eb.strrev, eb.axioms = ea.strtab, ea.strrev, ea.axioms
    g = CORPUS[job["grammar"]]
    ea.conv = eb.conv = getattr(g, "conv", "u32")
    shape = tuple(job["shape"])
    out = {"stats": None, "cex": [], "inconclusive": [], "samples": [], "nontrivial": 0, "classes": {}, "joint": 0}

    def mk_harness(with_help):
        def harness(ex):
            ex.fresh_n = 0
            parser = ex.call(parse_callee(g.builder), [])
            words = tok.gen_words_sharded(ex, sum(tok.FORM_ITEMS[f] for f in shape), g.decl, shape)
            items = tok.words_to_items(ex, words)
            st = Cell(tok.mk_state(ex, items), "state")
            pc = Cell(parser, "parser")
            res = ex.call(parse_callee("OptionParser::run_subparser"), [Ref(pc, ()), Ref(st, ())])
            return (words, res, st.v)
        return harness

    def on_a(ex, ra):
        if ra.kind != "ok":
            out["inconclusive"].append("panic on a `{}` path: %r" % (ra.info,))
            return
        wa, resa, sta = ra.value
        ca, paya = tok.classify(ea, resa)
        out["classes"][ca] = out["classes"].get(ca, 0) + 1
        eb.path_axioms = list(ea.pc)
        cuts_a = [c[0] for c in ea.cut_log]

        def on_b(exb, rb):
            out["joint"] += 1
            if rb.kind != "ok":
                bad = "full-feature build panics: %r" % (rb.info,)
                cb, payb = "panic", None
            else:
                wb, resb, stb = rb.value
                cb, payb = tok.classify(eb, resb)
                bad = None
                if ca != cb:
                    bad = "class differs (%s vs %s)" % (ca, cb)
                else:
                    if ca == "ok":
                        eq = val_eq(eb, paya, payb)
                    elif ca == "stderr":
                        na, ma = tok.message_name(ea, paya)
                        nb, mb = tok.message_name(eb, payb)
                        eq = (na == nb) and message_eq(eb, ma, mb)
                    else:
                        eq = True
                    if eq is not True:
                        m = eb.prove(eq) if eq is not False else eb.model()
                        if m is not None:
                            if eq is not False:
                                eb.solver.add(z3.Not(eq))
                            bad = "value / message differs"
                    if bad is None:
                        la = [x.var for x in lemmas.fields_of(ea, sta)["item_state"].items]
                        lb = [x.var for x in lemmas.fields_of(eb, stb)["item_state"].items]
                        if la != lb:
                            bad = "final consumption ledger differs"
            if bad:
                m = eb.model()
                cz = tok.Concretizer(eb, m)
                argv = cz.argv(wa)
                out["cex"].append({"kind": "feature-dependent", "grammar": job["grammar"], "shape": list(shape), "argv": argv, "env": cz.env(g.env_names),
                                   "predicted": [[ca, fmt_debug(cz, paya, pa.layout) if ca == "ok" else None],
                                                 [cb, fmt_debug(cz, payb, pb.layout) if cb == "ok" else None]], "expected": "equal", "why": bad})
            elif len(out["samples"]) < 2:
                m = eb.model()
                cz = tok.Concretizer(eb, m)
                out["samples"].append({"grammar": job["grammar"], "argv": cz.argv(wa), "class": ca, "both_builds_agree": True})
        if ea.pc:
            out["nontrivial"] += 1
        eb.explore(mk_harness(False), on_b, max_paths=5000)

    def message_eq(ex, ma, mb):
        # compare payloads structurally but ignore MissingItem scopes/Items containing Docs: compare
        # variant + plain integer/str fields
        if ma.var != mb.var:
            return False
        conds = []
        for x, y in zip(ma.fields, mb.fields):
            if isinstance(x, (int, str, bool)) or is_sym(x) or type(x) is SymStr:
                conds.append(val_eq(ex, x, y))
            elif type(x) is Adt and x.ty == "Option" and (x.var == 0 or isinstance(x.fields[0], int) or is_sym(x.fields[0])):
                conds.append(val_eq(ex, x, y))
            elif type(x) is Seq:
                if len(x.items) != len(y.items):
                    return False
        from mirsym.models import and_all
        return and_all(ex, conds)

    try:
        ea.explore(mk_harness(False), on_a, max_paths=100000)
    except Unmodelled as e:
        out["inconclusive"].append("UNMODELLED %s [%s]" % (e, "/".join((eb.callstack or ea.callstack)[-3:])))
    except BoundExceeded as e:
        out["inconclusive"].append("BOUND %s" % e)
    except ExecError as e:
        out["inconclusive"].append("EXEC-ERROR %s [%s]" % (e, "/".join((eb.callstack or ea.callstack)[-3:])))
    st = dict(ea.stats)
    for k, v in eb.stats.items():
        st[k] = st.get(k, 0) + v
    out["stats"] = st
    mh = dict(ea.model_hits)
    for k, v in eb.model_hits.items():
        mh[k] = mh.get(k, 0) + v
    out["models_used"] = mh
    fh = dict(ea.fn_hits)
    for k, v in eb.fn_hits.items():
        fh[k] = fh.get(k, 0) + v
    out["fn_hits"] = fh
    if out["cex"]:
        ra_ = Replayer(build["sets"]["none"]["replay"]).run([(c["grammar"], c["argv"], c.get("env") or {}) for c in out["cex"]])
        rb_ = Replayer(build["sets"]["full"]["replay"]).run([(c["grammar"], c["argv"], c.get("env") or {}) for c in out["cex"]])
        for c, x, y in zip(out["cex"], ra_, rb_):
            c["native"] = [list(x), list(y)]
            c["reproduced"] = tuple(x) != tuple(y)
    return out


def make_jobs(tier, seed, build):
    jobs = []
    nmax = 2 if tier == "quick" else 3
    for gname in GRAMMARS:
        g = CORPUS[gname]
        for shape in tok.all_shapes_by_words(nmax, g.decl, full_upto=2):
            jobs.append({"id": "%s:%s" % (gname, ",".join(shape)), "grammar": gname, "shape": shape})
    import itertools
    wmax, lmax = (2, 4) if tier == "quick" else (3, 4)
    for gname in PROLOGUE_GRAMMARS:
        for n in range(1, wmax + 1):
            for lens in itertools.product(range(1, lmax + 1), repeat=n):
                if sum(lens) > (6 if tier == "quick" else 8):
                    continue
                jobs.append({"id": "prologue:%s:%s" % (gname, ",".join(map(str, lens))), "kind": "prologue", "grammar": gname, "lens": list(lens), "shape": ()})
    for pi, prefix in enumerate(CONSOLE_PREFIXES):
        for n in range(0, (3 if tier == "quick" else 4) + 1):
            jobs.append({"id": "console:%d:%d" % (pi, n), "kind": "console", "prefix": prefix, "n": n, "shape": ()})
    return jobs


def mir_diff_evidence(build):
    """supporting evidence: names of the functions whose MIR text differs between the two dumps"""
    import re
    def fns(path):
        d = {}
        cur = None
        buf = []
        for ln in open(path):
            if ln.startswith("fn "):
                cur = ln.split("(")[0]
                buf = []
            if cur:
                buf.append(ln)
            if ln.startswith("}") and cur:
                d[cur] = hash("".join(buf))
                cur = None
        return d
    a = fns(build["sets"]["none"]["bpaf_mir"])
    b = fns(build["sets"]["full"]["bpaf_mir"])
    changed = sorted(k for k in a if k in b and a[k] != b[k])
    return {"functions_in_none": len(a), "functions_in_full": len(b), "only_in_full": len([k for k in b if k not in a]),
            "same_name_different_mir": len(changed), "examples": changed[:12]}


def finish(results, jobs, build, out, tier, seed, wall):
    from . import framework as fw
    st = fw.merge_stats(results)
    samples = []
    for r in results:
        if r.get("error"):
            out.inconc("job %s crashed: %s" % (r["job"], r["error"]))
        for w in r.get("inconclusive", []):
            out.inconc("%s: %s" % (r["job"], w))
        for s in r.get("samples", [])[:1]:
            if len(samples) < 10:
                samples.append(s)
        for c in r.get("cex", []):
            key = c.get("finding_key") or "%s:%s" % (c["grammar"], " ".join(c["argv"]))
            what = "features change the outcome on grammar %s argv=%r: {}: %s, full: %s (%s)" % (c["grammar"], c["argv"], c["native"][0], c["native"][1], c["why"])
            if c.get("help_text") is not None:
                what = "features change the help text: help %r renders as {}: %s, full: %s (%s)" % (c["help_text"], c["native"][0], c["native"][1], c["why"])
            if c.get("reproduced"):
                out.violation(key, what, c)
            else:
                out.inconc("NONREPRO %s%s predicted %s native %s (%s)" % (key, (" help text %r" % c["help_text"]) if c.get("help_text") is not None else "", c["predicted"], c["native"], c["why"]))
    joint = sum(r.get("joint", 0) for r in results)
    nmax = 2 if tier == "quick" else 3
    cov = {
        "evaluations": st["queries"],
        "distinct_nontrivial": sum(r.get("nontrivial", 0) for r in results),
        "rule": "one case = one feasible path of the `{}` build together with every path of the full-feature build under the same path condition",
        "samples": samples,
        "states": max(joint, 1),
        "transitions": max(st["decisions"], 1),
        "traces_validated_against_impl": 0,
        "exhaustive": not out.inconclusive,
        "joint_paths": joint,
        "queries": {"total": st["queries"], "sat": st["sat"], "unsat": st["unsat"], "unknown": st["unknown"]},
        "solver_time_s": st["solver_s"],
        "mir_statements_executed": st["steps"],
        "outcome_classes": fw.merge_counts(results, "classes"),
        "bounds": {"largest_size": (tok.REDUCED_NOTE if tier != "quick" else "all forms"), "argv_words": "0..=%d (up to twice as many items)" % nmax, "grammars": GRAMMARS, "feature_sets": ["{}", "{autocomplete,docgen,batteries}"],
                   "run_inner_prologue": "grammars %s; argv of 1..=%d words of 1..=4 symbolic bytes over a 5-letter alphabet per grammar (dash, equals, two declared shorts, one other), total <= %d bytes" % (sorted(PROLOGUE_GRAMMARS), 2 if tier == "quick" else 3, 6 if tier == "quick" else 8)},
        "jobs": len(jobs),
        "functions_encoded": sorted(fw.merge_counts(results, "fn_hits")),
        "models_used": fw.merge_counts(results, "models_used"),
        "cuts": tok.CUTS,
        "mir_diff_between_feature_sets": mir_diff_evidence(build),
        "repo_src_hash": build.get("repo_hash"),
    }
    assumptions = [
        "State.comp = None in the full-feature build (argv without a completion marker)",
        "help / error *text* is cut at the render boundary; equality is shown for class, value, ledger and Message variant + plain payload fields",
        "run_inner's own prologue (short-name table, State::construct on bytes, ambiguity report) is compared on symbolic argv bytes over small alphabets (prologue jobs); byte values outside the alphabet are covered by C02's construct jobs for the `{}` build only",
        "colour features and `derive` are not executed (see module docstring)",
        "token-layer assumptions of C01 apply",
    ]
    return {"tier": tier, "seed": seed, "level": "model_checking", "coverage": cov, "assumptions": assumptions}
