"""C18 - environment variables are a fallback below the command line.

std::env::var_os is replaced by symbolic functions env_set(name) / env_val(name) (the value id is
subject to the same validity predicate as a typed value; "non-UTF-8" is a kind of invalid).
Differential against spec/grammar.py (which states: line first, then the variable, then
default / failure) on the env-backed grammar, for every argv shape and every environment state.
Any call of var_os with a name the grammar did not declare is a violation by itself.
std::env::var (not used by bpaf today) is modelled as var_os followed by a UTF-8 test on an uninterpreted
predicate non_utf8(id) that implies invalidity for converted values; replays then use a value ending in byte 0xff.
"""
import z3
from . import C01, tok
from .tokdiff import run_tok_job, finish_tok
from .corpus import CORPUS

PROP = "C18"
GRAMMARS = ["e1"]


class Oracle(C01.Oracle):
    assumptions = C01.Oracle.assumptions + [
        "environment = two uninterpreted functions over variable names; every declared variable may be unset, set to a valid, or set to an invalid text",
    ]

    def judge(self, ex, g, words, cls, payload, state, report, out):
        for note in ex.notes:
            if note[0] == "undeclared-env":
                report("undeclared-variable-read", words, (cls, payload), ["-", "var_os(%r) but the grammar declares %r" % (note[1], g.env_names)])
                return
        from spec import grammar as G
        from .tokdiff import spec_env
        items = G.items_of_words(words)
        env = spec_env(ex)

        def report2(kind, words_, predicted, expected, extra=None):
            # role of the known finding: a repeated (many/some/last) env-backed argument that IS on the
            # line while its variable holds an invalid text
            if kind == "accepts-sentence":
                for f in g.level.fields:
                    if isinstance(f, G.Named) and f.env and f.arity in ("many", "some", "last"):
                        on_line = any(it.kind in ("short", "long") and G.name_match(ex, env, f, it) for it in items)
                        if on_line:
                            t = z3.IntVal(ex.intern(f.env))
                            if ex.branch(tok.ENVSET(t), "role") and not ex.branch(tok.VALID(tok.ENVVAL(t)), "role"):
                                extra = {"finding_key": "repeated-argument-on-line-but-invalid-variable-consulted"}
            report(kind, words_, predicted, expected, extra)
        C01.Oracle.judge(self, ex, g, words, cls, payload, state, report2, out)


def make_jobs(tier, seed, build):
    jobs = []
    nmax = 2 if tier == "quick" else 3
    for gname in GRAMMARS:
        g = CORPUS[gname]
        for shape in tok.all_shapes_by_words(nmax, g.decl):
            if True:
                jobs.append({"id": "%s:%s" % (gname, ",".join(shape)), "grammar": gname, "shape": shape, "fs": "none"})
    return jobs


def run_job(job, build):
    return run_tok_job(job, build, CORPUS, Oracle(), max_validate=1500)


def finish(results, jobs, build, out, tier, seed, wall):
    nmax = 2 if tier == "quick" else 3
    return finish_tok(PROP, results, jobs, build, out, tier, seed, wall, Oracle(), CORPUS,
                      {"argv_words": "0..=%d (up to twice as many items)" % nmax, "grammars": len(GRAMMARS), "environment": "all 3^5 set/unset/valid/invalid states, symbolically"})
