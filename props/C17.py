"""C17 - derive and combinatoric APIs define the same parser.

The derive macro runs inside rustc, so the *definitions* cannot be symbolic: the corpus is
harness/src/derived.rs (one type per derive rule group: bool / Option / Vec / plain fields with
kebab-case and single-letter names; unnamed fields; unit / struct / command enum variants; explicit
short/long/argument/fallback/env/positional/version annotations), each next to the combinator
parser the documentation says it is equivalent to.  Both builder functions are executed from MIR
(the macro's expansion is part of the harness crate's MIR, so a changed bpaf_derive changes it):
  meta     the two parsers' Meta trees and Info (names, metavars, help and description Docs,
           version) are structurally equal - this is what help text is rendered from
  run      relational: run_subparser of both on the same symbolic argv (one path): equal class,
           equal value, equal Message variant at the render cut
"""
import z3

from mirsym.engine import parse_callee, Unmodelled, ExecError, BoundExceeded, Panic, Infeasible
from mirsym.values import *
from mirsym.models import val_eq
from . import tok
from .tokdiff import fmt_debug
from .framework import Replayer

PROP = "C17"
FEATURE_SETS = ("derive",)
PAIRS = {
    "d1": dict(short_flags="x", short_args="", env=[]),
    "d2": dict(short_flags="", short_args="", env=[]),
    "d3": dict(short_flags="", short_args="", env=[]),
    "d4": dict(short_flags="q", short_args="s", env=["VERIF_D4"]),
    "d5": dict(short_flags="lz", short_args="t", env=[]),
    "d6": dict(short_flags="v", short_args="n", env=[]),
    "d7": dict(short_flags="", short_args="", env=[]),
    "d8": dict(short_flags="", short_args="", env=[]),
    "d9": dict(short_flags="", short_args="", env=[]),
    "d10": dict(short_flags="", short_args="", env=[]),
}


def builder(name, which):
    return "vharness::derived::%s" % (name if which == "derive" else name + "_manual")


def run_meta_job(job, build):
    prog = tok.load_program(build, "derive")
    ex = tok.new_exec(prog)
    name = job["pair"]
    out = {"stats": None, "cex": [], "inconclusive": [], "samples": [], "nontrivial": 1, "pairs": 0}

    def harness(ex):
        vals = []
        L = ex.prog.layout
        for which in ("derive", "manual"):
            p = ex.call(parse_callee(builder(name, which)), [])
            inner = p.fields[L.adts["OptionParser"]["fields"].index("inner")]
            info = p.fields[L.adts["OptionParser"]["fields"].index("info")]
            meta = ex.call(parse_callee("<P as Parser<T>>::meta"), [Ref(Cell(inner, "inner"), ())])
            vals.append((meta, info))
        return vals

    def on_path(ex, r):
        if r.kind != "ok":
            out["inconclusive"].append("builder / meta panicked: %r" % (r.info,))
            return
        (m1, i1), (m2, i2) = r.value
        out["pairs"] += 1
        e1 = val_eq(ex, m1, m2)
        e2 = val_eq(ex, i1, i2)
        if e1 is not True:
            out["cex"].append({"kind": "meta-differs", "pair": name, "derive": repr(m1)[:1500], "manual": repr(m2)[:1500]})
        if e2 is not True:
            out["cex"].append({"kind": "info-differs", "pair": name, "derive": repr(i1)[:1500], "manual": repr(i2)[:1500]})
        out["samples"].append({"pair": name, "meta_equal": e1 is True, "info_equal": e2 is True})
    try:
        ex.explore(harness, on_path)
    except (Unmodelled, BoundExceeded, ExecError) as e:
        out["inconclusive"].append("%s %s [%s]" % (type(e).__name__, e, "/".join(ex.callstack[-3:])))
    out["stats"] = dict(ex.stats)
    out["models_used"] = dict(ex.model_hits)
    out["fn_hits"] = dict(ex.fn_hits)
    return out


def run_rel_job(job, build):
    prog = tok.load_program(build, "derive")
    ex = tok.new_exec(prog, step_budget=1000000)
    name = job["pair"]
    cfg = PAIRS[name]
    decl = tok.Decl(cfg["short_flags"] + "hV", cfg["short_args"])
    shape = tuple(job["shape"])
    layout = prog.layout
    out = {"stats": None, "cex": [], "inconclusive": [], "samples": [], "nontrivial": 0, "classes": {}, "pairs": 0}

    def harness(ex):
        words = tok.gen_words_sharded(ex, sum(tok.FORM_ITEMS[f] for f in shape), decl, shape)
        res = []
        for which in ("derive", "manual"):
            p = ex.call(parse_callee(builder(name, which)), [])
            items = tok.words_to_items(ex, words)
            st = Cell(tok.mk_state(ex, items), "state")
            res.append(ex.call(parse_callee("OptionParser::run_subparser"), [Ref(Cell(p, "parser"), ()), Ref(st, ())]))
        return (words, res)

    def on_path(ex, r):
        if r.kind != "ok":
            out["inconclusive"].append("panic on a C17 path: %r" % (r.info,))
            return
        words, (ra, rb) = r.value
        out["pairs"] += 1
        if ex.pc:
            out["nontrivial"] += 1
        ca, pa = tok.classify(ex, ra)
        cb, pb = tok.classify(ex, rb)
        out["classes"][ca] = out["classes"].get(ca, 0) + 1
        bad = None
        if ca != cb:
            bad = "class differs (%s vs %s)" % (ca, cb)
        elif ca == "ok":
            eq = val_eq(ex, pa, pb)
            if eq is False or (eq is not True and ex.prove(eq) is not None):
                if eq is not False and eq is not True:
                    ex.solver.add(z3.Not(eq))
                bad = "value differs"
        elif ca == "stderr":
            na, _ = tok.message_name(ex, pa)
            nb, _ = tok.message_name(ex, pb)
            if na != nb:
                bad = "failure kind differs (%s vs %s)" % (na, nb)
        elif ca == "stdout":
            if repr(pa) != repr(pb):
                bad = "help/version document arguments differ"
        if bad or len(out["samples"]) < 1:
            m = ex.model()
            cz = tok.Concretizer(ex, m)
            argv = cz.argv(words)
            env = cz.env(cfg["env"])
            if bad:
                out["cex"].append({"kind": "derive-differs", "pair": name, "argv": argv, "env": env, "why": bad,
                                   "predicted": [[ca, fmt_debug(cz, pa, layout) if ca == "ok" else None], [cb, fmt_debug(cz, pb, layout) if cb == "ok" else None]]})
            else:
                out["samples"].append({"pair": name, "argv": argv, "class": ca, "both_agree": True})
    try:
        ex.explore(harness, on_path, max_paths=200000)
    except (Unmodelled, BoundExceeded, ExecError) as e:
        out["inconclusive"].append("%s %s [%s]" % (type(e).__name__, e, "/".join(ex.callstack[-3:])))
    out["stats"] = dict(ex.stats)
    out["models_used"] = dict(ex.model_hits)
    out["fn_hits"] = dict(ex.fn_hits)
    if out["cex"]:
        rp = Replayer(build["sets"]["derive"]["replay"])
        cases = []
        for c in out["cex"]:
            cases.append((name + "_derive", c["argv"], c["env"]))
            cases.append((name + "_manual", c["argv"], c["env"]))
        got = rp.run(cases)
        for i, c in enumerate(out["cex"]):
            n1, n2 = got[2 * i], got[2 * i + 1]
            c["native"] = [list(n1), list(n2)]
            c["reproduced"] = tuple(n1) != tuple(n2)
    return out


def make_jobs(tier, seed, build):
    jobs = []
    nmax = 3 if tier == "quick" else 4
    for name, cfg in PAIRS.items():
        jobs.append({"id": "meta:%s" % name, "kind": "meta", "pair": name})
        decl = tok.Decl(cfg["short_flags"] + "hV", cfg["short_args"])
        for shape in tok.all_shapes_by_words(nmax, decl, full_upto=3):
            jobs.append({"id": "run:%s:%s" % (name, ",".join(shape)), "kind": "run", "pair": name, "shape": shape})
    return jobs


def run_job(job, build):
    if job["kind"] == "meta":
        return run_meta_job(job, build)
    return run_rel_job(job, build)


def finish(results, jobs, build, out, tier, seed, wall):
    from . import framework as fw
    st = fw.merge_stats(results)
    samples = []
    for r in results:
        if r.get("error"):
            out.inconc("job %s crashed: %s" % (r["job"], r["error"]))
        for w in r.get("inconclusive", []):
            out.inconc("%s: %s" % (r["job"], w))
        for s in r.get("samples", [])[:1]:
            if len(samples) < 10:
                samples.append(s)
        for c in r.get("cex", []):
            if c["kind"] == "derive-differs":
                what = "derive and combinator parsers of %s differ on argv=%r env=%r: derive %s, manual %s (%s)" % (c["pair"], c["argv"], c["env"], c["native"][0], c["native"][1], c["why"])
                if c.get("reproduced"):
                    out.violation("%s:%s" % (c["pair"], " ".join(c["argv"])), what, c)
                else:
                    # same class and text natively but different Message variants: the rendered text is what users see
                    out.inconc("NONREPRO " + what)
            else:
                out.violation("%s:%s" % (c["kind"], c["pair"]), "%s for %s: derive %s / manual %s" % (c["kind"], c["pair"], c["derive"][:300], c["manual"][:300]), c)
    pairs = sum(r.get("pairs", 0) for r in results)
    nmax = 3 if tier == "quick" else 4
    cov = {
        "evaluations": st["queries"],
        "distinct_nontrivial": sum(r.get("nontrivial", 0) for r in results),
        "rule": "one case = one feasible joint path of run_subparser of the derived and of the hand written parser on the same symbolic argv (plus one structural Meta/Info comparison per pair)",
        "samples": samples,
        "states": max(pairs, 1),
        "transitions": max(st["decisions"], 1),
        "traces_validated_against_impl": 0,
        "exhaustive": not out.inconclusive,
        "joint_paths": pairs,
        "queries": {"total": st["queries"], "sat": st["sat"], "unsat": st["unsat"], "unknown": st["unknown"]},
        "solver_time_s": st["solver_s"],
        "outcome_classes": fw.merge_counts(results, "classes"),
        "bounds": {"largest_size": (tok.REDUCED_NOTE if tier != "quick" else "all forms"), "argv_words": "0..=%d" % nmax, "pairs": sorted(PAIRS), "derive_rules": "named bool/Option/Vec/plain, kebab-case, single-letter, unnamed fields, unit/struct/command variants, short/long/argument/fallback/env/positional/version annotations, doc comments"},
        "jobs": len(jobs),
        "functions_encoded": sorted(fw.merge_counts(results, "fn_hits")),
        "models_used": fw.merge_counts(results, "models_used"),
        "cuts": tok.CUTS,
        "repo_src_hash": build.get("repo_hash"),
    }
    assumptions = [
        "the definitions are a fixed corpus (proc-macro output cannot be made symbolic); the argv is symbolic",
        "the hand written equivalents in harness/src/derived.rs follow the derive documentation (field name -> long name in kebab-case, metavar ARG, doc comment -> help/descr)",
        "help *text* equality is shown through equality of the Meta/Info it is rendered from; rendering itself is cut",
        "token-layer assumptions of C01 apply",
    ]
    return {"tier": tier, "seed": seed, "level": "model_checking", "coverage": cov, "assumptions": assumptions}
