"""C10 - asking for help or version always wins and never runs the program.

For every corpus grammar and every argv shape one Short/Long item (standing alone, left of
`--`) is constrained to be the help flag (resp. the version flag); everything else stays
symbolic (valid, invalid, incomplete, duplicated ...).  Obligations:
  * the outcome class is Stdout, never Ok / Stderr
  * the help document is built for the innermost subcommand entered: the (path, Info) handed to
    the (cut) renderer are those of the level reached by the documentation-level scan
    `entered_chain` below
  * version: Stdout iff that level configured a version, otherwise an ordinary failure
The "ambiguous short cluster is reported first" exception lives in run_inner/State::construct
(text layer) and is outside the token layer.
"""
import z3

from spec import grammar as G
from mirsym.values import *
from mirsym.models import rda
from . import tok
from .tokdiff import TokOracle, help_names, assume_not_named, run_tok_job, finish_tok, spec_env
from .corpus import CORPUS

PROP = "C10"
GRAMMARS = ["g1", "p1", "c1", "c2", "c3", "c4", "h1", "h2", "o1", "a1", "k2", "k3", "k4", "v1", "c5", "c6", "c7", "c9", "hr", "x1", "x4", "f1", "kv"]
# which command levels configured a version (path of primary command names -> bool)
VERSIONS = {"h1": {(): True}, "h2": {(): False, ("add",): True}, "kv": {(): False, ("drink",): True}}


def level_named(level):
    out = []
    for f in level.fields:
        if isinstance(f, G.Named):
            out.append(f)
        elif isinstance(f, G.Group):
            out.extend(f.members)
    return out


def entered_chain(ex, env, level, items, flag_ix=None, special=None):
    """documentation-level notion of 'the innermost subcommand entered' (C08): a command is
    entered when its name is the first item its level has not claimed.
    `flag_ix`: index of the help/version item under consideration; `special(i, chain)`: is item i a
    help flag (or a version flag of a level that configured a version)?  Both are needed for
    `adjacent` commands only: such a command owns the contiguous run of items right of its name that
    its own parser accepts and the enclosing level did not claim; the flag is inside the command iff
    it lies in that run, otherwise the block is over and the enclosing level goes on (a sibling
    command may follow)."""
    chain = []
    lo = 0
    n = len(items)
    hi = n
    for i in range(n):
        if items[i].kind == "dd":
            hi = i
            break
    done = set()
    outer = []  # named items of the enclosing levels: they are parsed first and may sit right of a command name
    while level is not None:
        claimed = set(done)
        for f in outer + level_named(level):
            for i in range(lo, hi):
                it = items[i]
                if i in claimed or it.kind not in ("short", "long"):
                    continue
                if G.name_match(ex, env, f, it):
                    if f.kind == "arg":
                        if f.adjacent and not it.adj:
                            continue
                        claimed.add(i)
                        if i + 1 < hi and items[i + 1].kind in ("word", "argword"):
                            claimed.add(i + 1)
                    else:
                        claimed.add(i)
        first = None
        for i in range(lo, hi):
            if i not in claimed:
                first = i
                break
        nxt = None
        if first is not None and items[first].kind == "word":
            for f in level.fields:
                if isinstance(f, G.Cmds):
                    for cmd in f.cmds:
                        if ex.branch(z3.Or(*[items[first].val == env.intern(nm) for nm in cmd.names]), "chain-cmd"):
                            nxt = cmd
                            break
                if nxt:
                    break
        if nxt is None:
            return chain
        if getattr(nxt, "adjacent", False) and flag_ix is not None:
            if flag_ix <= first:
                return chain
            sub_chain = chain + [nxt.names[0]]
            j = first + 1
            seen = {}
            specials = []
            while j < hi and j not in claimed:
                it = items[j]
                step = 0
                if it.kind in ("short", "long"):
                    # take_flag does not look at an attached value: `-h=` is still the help flag
                    if special is not None and special(j, sub_chain):
                        specials.append(j)
                        step = 1
                    else:
                        for f in level_named(nxt.level):
                            if not G.name_match(ex, env, f, it):
                                continue
                            if f.kind == "arg":
                                if f.adjacent and not it.adj:
                                    continue
                                if j + 1 < hi and (j + 1) not in claimed and items[j + 1].kind in ("word", "argword"):
                                    step = 2
                            elif not it.adj and not seen.get(id(f)):
                                seen[id(f)] = True
                                step = 1
                            break
                if step == 0:
                    break
                j += step
            if specials:
                chain.append(nxt.names[0])
                outer = outer + level_named(level)
                level = nxt.level
                lo, hi = first + 1, j
                done = set()
                continue
            # the block is over before the flag: back to the enclosing level
            done |= set(range(first, j))
            continue
        chain.append(nxt.names[0])
        outer = outer + level_named(level)
        level = nxt.level
        lo = first + 1
        done = set()
    return chain


class Oracle(TokOracle):
    assumptions = [
        "one Short/Long item without attached value, left of `--`, is the help (resp. version) flag; all other items are unconstrained",
        "grammars without a reference Level (a1, k2, k3, k4) have no subcommands: the expected path is empty",
    ]

    def __init__(self, mode, which):
        self.mode = mode  # 'help' | 'version'
        self.which = which  # index among the candidate words

    def assume(self, ex, g, words, parser):
        (hs, hl), (vs, vl), has_version = help_names(ex, parser)
        cands = []
        for i, w in enumerate(words):
            if w.form == "dd":
                break
            if w.form in ("short", "long"):
                cands.append(w)
        if self.which >= len(cands):
            from mirsym.engine import Infeasible
            raise Infeasible()
        w = cands[self.which]
        ex.c10_flag_item = sum(tok.FORM_ITEMS[x.form] for x in words[:words.index(w)])
        ex.c10_names = ((hs, hl), (vs, vl))
        if self.mode == "help" and getattr(g, "adjacent_cmds", False) and any(VERSIONS.get(g.name, {}).values()):
            vs, vl = (vs or [ord("V")]), (vl or ["version"])
            # help and version requested together inside an adjacent command: bpaf hands the request to the
            # enclosing level (stdout, the enclosing level's help); which level should answer is not fixed
            assume_not_named(ex, words, vs, vl)
        names_s, names_l = (hs, hl) if self.mode == "help" else (vs, vl)
        if w.form == "short":
            if not names_s:
                from mirsym.engine import Infeasible
                raise Infeasible()
            ex.assume(z3.Or(*[w.name == s for s in names_s]))
        else:
            ex.assume(z3.Or(*[w.name == ex.intern(l) for l in names_l]))
        if self.mode == "version":
            assume_not_named(ex, words, hs, hl)

    @staticmethod
    def ancestor_field_fails(ex, env, g, items, chain):
        """role of the known finding: a subcommand was entered and a named field of an *enclosing*
        level fails on this line (required but missing, argument name without a value, invalid
        value, single-use item given twice); construct! then reports that field's error and the
        subcommand's help output is lost"""
        level = g.level
        hi = len(items)
        for i, it in enumerate(items):
            if it.kind == "dd":
                hi = i
                break
        for nm in chain:
            for f in level_named(level):
                occ = 0
                for i in range(hi):
                    it = items[i]
                    if it.kind in ("short", "long") and G.name_match(ex, env, f, it):
                        occ += 1
                        if f.kind == "arg":
                            if i + 1 >= hi or items[i + 1].kind not in ("word", "argword"):
                                return True
                            if not ex.branch(env.valid(items[i + 1].val), "role-valid"):
                                return True
                if f.kind == "arg" and f.arity == "req" and occ == 0:
                    return True
                if f.kind == "req_flag" and occ == 0:
                    return True
                if occ > 1 and (f.kind in ("switch", "req_flag") or (f.kind == "arg" and f.arity in ("req", "opt", "fallback"))):
                    return True
            nxt = None
            for f in level.fields:
                if isinstance(f, G.Cmds):
                    for cmd in f.cmds:
                        if cmd.names[0] == nm:
                            nxt = cmd
            level = nxt.level
        return False

    def judge(self, ex, g, words, cls, payload, state, report, out):
        items = G.items_of_words(words)
        env = spec_env(ex)

        def leaf(ex2, chain):
            out["spec_leaves"] += 1
            chain = tuple(chain)
            if self.mode == "version":
                configured = VERSIONS.get(g.name, {}).get(chain, False)
                if not configured:
                    if cls == "ok":
                        report("version-flag-accepted", words, (cls, payload), ["stderr", "version not configured at level %r" % (chain,)])
                    return
            if cls != "stdout":
                extra = None
                if chain and self.ancestor_field_fails(ex2, env, g, items, chain):
                    extra = {"finding_key": "enclosing-level-field-fails-and-hides-subcommand-help"}
                report("%s-does-not-win" % self.mode, words, (cls, payload), ["stdout", "level %r" % (chain,)], extra)
                return
            if self.mode == "help":
                if not (type(payload) is Opaque and payload.tag == "help"):
                    report("help-not-rendered-by-render_help", words, (cls, payload), ["stdout", "help of level %r" % (chain,)])
                    return
                path = tuple(rda(x) for x in payload.payload[0].items)
                if path != chain:
                    extra = None
                    if chain and path == chain[:len(path)] and self.ancestor_field_fails(ex2, env, g, items, chain):
                        # the known finding again: the failing field of an enclosing level wins over the subcommand's help;
                        # here the enclosing level then finds the help flag itself and prints *its* help
                        extra = {"finding_key": "enclosing-level-field-fails-and-hides-subcommand-help"}
                    report("help-for-wrong-level", words, (cls, payload), ["stdout", "help of level %r, got %r" % (chain, path)], extra)
        if g.level is None:
            leaf(ex, [])
        else:
            fix = getattr(ex, "c10_flag_item", None)
            (hs, hl), (vs, vl) = getattr(ex, "c10_names", (((), ()), ((), ())))

            def special(e, i, sub_chain):
                it = items[i]
                def named(ss, ls):
                    if it.kind == "short":
                        return bool(ss) and e.branch(z3.Or(*[it.name == c for c in ss]), "c10-special")
                    return bool(ls) and e.branch(z3.Or(*[it.name == e.intern(l) for l in ls]), "c10-special")
                if named(hs, hl):
                    return True
                if VERSIONS.get(g.name, {}).get(tuple(sub_chain), False) and named(vs or [ord("V")], vl or ["version"]):
                    return True
                return False
            ex.sub_explore(lambda e: entered_chain(e, env, g.level, items, fix, lambda i, sc: special(e, i, sc)), leaf)


def make_jobs(tier, seed, build):
    jobs = []
    nmax = 3 if tier == "quick" else 4
    for gname in GRAMMARS:
        g = CORPUS[gname]
        for shape in tok.all_shapes_by_words(nmax, g.decl, full_upto=3):
            if True:
                k = 0
                for f in shape:
                    if f == "dd":
                        break
                    if f in ("short", "long"):
                        k += 1
                for which in range(k):
                    jobs.append({"id": "%s:help%d:%s" % (gname, which, ",".join(shape)), "grammar": gname, "shape": shape,
                                 "fs": "none", "mode": "help", "which": which})
                    if gname in VERSIONS or gname in ("g1", "c1"):
                        jobs.append({"id": "%s:version%d:%s" % (gname, which, ",".join(shape)), "grammar": gname, "shape": shape,
                                     "fs": "none", "mode": "version", "which": which})
    return jobs


def run_job(job, build):
    return run_tok_job(job, build, CORPUS, Oracle(job["mode"], job["which"]))


def finish(results, jobs, build, out, tier, seed, wall):
    nmax = 3 if tier == "quick" else 4
    return finish_tok(PROP, results, jobs, build, out, tier, seed, wall, Oracle("help", 0), CORPUS,
                      {"argv_words": "1..=%d (up to twice as many items)" % nmax, "grammars": len(GRAMMARS), "help_item_position": "every Short/Long word left of `--`"})
