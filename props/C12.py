"""C12 - generated help documents exactly what the parser accepts.

  tree:*   the quantifier is over parser definitions, so the **Meta tree is the symbolic input**: bounded
           trees (<= 5 inner nodes, depth <= 3) whose node kinds (And / Or / Optional / Required / Many /
           Adjacent / Subsection / Suffix / CustomUsage / Strict / Skip) and leaf kinds (flag, argument,
           positional, command, each with or without help) are chosen through the solver.  Executed from
           MIR: HelpItems::append_meta, find_group, Dedup, write_help_item_groups / write_help_items /
           write_help_item, the Doc builders and Doc::render_console.  The oracle reads the rendered text:
           every visible item (flag / argument / command; positional only with help) is listed exactly
           once with its name, metavariable and help; nothing else is listed (positionals without help,
           no hidden item - `hide` is Meta::Skip); wrapping a subtree in CustomUsage changes nothing
  name:*   per primitive: the name ParseFlag / ParseArgument show through meta() (first short / first
           long of a symbolic NamedArg) is matched by matches_arg, and aliases are never the shown name
  order:*  render_help on a parser with description, header and footer: they appear in that order around
           the usage line and the item lists
"""
import itertools
import z3

from mirsym.engine import parse_callee, Unmodelled, ExecError, BoundExceeded, Panic, Infeasible, Exec
from mirsym.values import *
from mirsym.models import NONE, SOME, rd, rda, wr, val_eq, MODELS
from mirsym import fmtmodels as FM
from mirsym import textmodels as TM
from . import tok
from .corpus import CORPUS

PROP = "C12"
FEATURE_SETS = ("none",)


def help_models():
    models = dict(tok.TOK_MODELS)
    models.update(FM.FMT_MODELS)
    del models["meta_help::render_help"]
    del models["render_help"]

    def m_truncate(ex, c, args):
        v = rd(args[0])
        wr(args[0], v.encode()[:args[1]].decode() if isinstance(v, str) else BStr(v.b[:args[1]]))
        return UNIT
    models["String::truncate"] = m_truncate

    # BTreeSet<String> (Dedup): a sequence of keys; insert returns whether the key is new
    def m_set_new(ex, c, args):
        return Seq(())

    def m_set_insert(ex, c, args):
        s = rd(args[0])
        k = rda(args[1])
        if k in s.items:
            return False
        wr(args[0], Seq(s.items + (k,)))
        return True
    models["BTreeSet::new"] = m_set_new
    models["BTreeSet::insert"] = m_set_insert
    return models


def stable_repr(v):
    v = rda(v)
    t = type(v)
    if t is Adt:
        return "%s#%s(%s)" % (v.ty, v.var, ",".join(stable_repr(x) for x in v.fields))
    if t is Seq:
        return "[" + ",".join(stable_repr(x) for x in v.items) + "]"
    if t is tuple:
        return "(" + ",".join(stable_repr(x) for x in v) + ")"
    return repr(v)


def new_exec(prog, budget=3000000):
    ex = tok.new_exec(prog, models=help_models(), step_budget=budget)
    TM.install_hooks(ex)
    ex.debug_repr = stable_repr
    return ex


# ------------------------------------------------------------------------------------------------
# symbolic Meta trees

class Gen:
    def __init__(self, ex, budget):
        self.ex = ex
        self.L = ex.prog.layout
        self.n = 0
        self.budget = budget
        self.visible = []  # (kind, name, metavar, help or None)
        self.absent = []  # strings that must not be listed
        self.groups = []
        # nested command levels (used by C16's generated-document jobs; `nest` = 0 keeps commands flat)
        self.nest = 0
        self.path = ()
        self.levels = {(): {"visible": self.visible, "absent": self.absent, "hidden": []}}

    def doc(self, text):
        L = self.L
        vi = L.variant_index("Token", "Text")
        fl = L.adts["Token"]["variants"][vi][1]
        d = {"bytes": len(text), "style": Adt("Style", L.variant_index("Style", "Text"), ())}
        tokd = Adt("Token", vi, tuple(d[f] for f in fl))
        dfl = L.adts["Doc"]["fields"]
        dd = {"payload": text, "tokens": Seq((tokd,))}
        return Adt("Doc", 0, tuple(dd[f] for f in dfl))

    def pick(self, k, tag):
        """generator choice; the first choices of a job are fixed by its shard"""
        if getattr(self, "force", None):
            v = self.force.pop(0)
            if v >= k:
                raise Infeasible()
            return v
        return tok.choose_free(self.ex, k, tag)

    def item(self, hidden, in_adjacent=False, only=None):
        ex, L = self.ex, self.L
        k = self.n
        self.n += 1
        # adjacent groups are made of flags, arguments and positionals (multi-value options, option structs)
        kind = only or ["flag", "arg", "pos", "cmd"][self.pick(3 if in_adjacent else 4, "leaf")]
        has_help = self.pick(2, "help") == 1
        help_ = SOME(self.doc("help-%d" % k)) if has_help else NONE
        iv = lambda n: L.variant_index("Item", n)

        def mk(vn, **kw):
            fl = L.adts["Item"]["variants"][iv(vn)][1]
            return Adt("Item", iv(vn), tuple(kw[f] for f in fl))
        if kind == "flag":
            sl = Adt("ShortLong", L.variant_index("ShortLong", "Long"), ("flag%d" % k,))
            it = mk("Flag", name=sl, shorts=Seq(()), env=NONE, help=help_)
            rec = ("flag", "--flag%d" % k, None, "help-%d" % k if has_help else None)
        elif kind == "arg":
            sl = Adt("ShortLong", L.variant_index("ShortLong", "Both"), (ord("a") + k, "arg%d" % k))
            it = mk("Argument", name=sl, shorts=Seq((ord("a") + k,)), metavar=Adt("Metavar", 0, ("MV%d" % k,)), env=NONE, help=help_)
            rec = ("arg", "--arg%d" % k, "MV%d" % k, "help-%d" % k if has_help else None)
        elif kind == "pos":
            it = mk("Positional", metavar=Adt("Metavar", 0, ("POS%d" % k,)), help=help_)
            rec = ("pos", "POS%d" % k, None, "help-%d" % k if has_help else None)
        else:
            info = self.ex.info_default
            sub = Adt("Meta", L.variant_index("Meta", "Skip"), ())
            if self.nest > 0 and not hidden:
                # the command's own level: a generated subtree recorded under its path
                self.nest -= 1
                saved = (self.path, self.visible, self.absent)
                self.path = self.path + ("cmd%d" % k,)
                self.visible, self.absent = [], []
                self.levels[self.path] = {"visible": self.visible, "absent": self.absent, "hidden": []}
                sub = self.tree(1)
                self.path, self.visible, self.absent = saved
            it = mk("Command", name="cmd%d" % k, short=NONE, help=help_, meta=sub, info=info)
            rec = ("cmd", "cmd%d" % k, None, "help-%d" % k if has_help else None)
        rec = rec + (in_adjacent,)
        if hidden:
            self.absent.append(rec[1])
            self.levels[self.path]["hidden"].append(rec[1])
        elif rec[0] == "pos" and not has_help and not in_adjacent:
            self.absent.append(rec[1])
        else:
            self.visible.append(rec)
        return Adt("Meta", L.variant_index("Meta", "Item"), (it,)), kind

    def tree(self, depth, in_adjacent=False):
        ex, L = self.ex, self.L
        mv = lambda n: L.variant_index("Meta", n)
        if depth == 0 or self.budget <= 0 or in_adjacent:
            if not in_adjacent and self.pick(2, "hidden-leaf") == 1:
                # a hidden leaf: `hide` replaces the metadata by Skip
                self.item(True)
                return Adt("Meta", mv("Skip"), ())
            m, kind = self.item(False, in_adjacent)
            return m
        self.budget -= 1
        kinds = ["item", "and", "or", "optional", "many", "required", "subsection", "suffix", "custom", "skip", "adjacent", "strict", "dupor"]
        k = kinds[self.pick(len(kinds), "node")]
        if k == "item":
            self.budget += 1
            return self.item(False)[0]
        if k in ("and", "or"):
            a = self.tree(depth - 1)
            b = self.tree(depth - 1)
            return Adt("Meta", mv("And" if k == "and" else "Or"), (Seq((a, b)),))
        if k in ("optional", "many", "required"):
            return Adt("Meta", mv({"optional": "Optional", "many": "Many", "required": "Required"}[k]), (self.tree(depth - 1),))
        if k == "subsection":
            g = "group-%d" % len(self.groups)
            self.groups.append(g)
            # a group_help nested in another one is flattened by design: only outermost headers are printed
            nested = getattr(self, "in_group", 0)
            self.in_group = nested + 1
            n0 = len(self.visible)
            inner = self.tree(depth - 1)
            self.in_group = nested
            if not nested and len(self.visible) > n0:
                # (a group whose members are all hidden prints nothing at all)
                self.headers = getattr(self, "headers", []) + [g]
            return Adt("Meta", mv("Subsection"), (inner, self.doc(g)))
        if k == "suffix":
            return Adt("Meta", mv("Suffix"), (self.tree(depth - 1), self.doc("suffix-%d" % self.n)))
        if k == "custom":
            self.custom = getattr(self, "custom", 0) + 1
            return Adt("Meta", mv("CustomUsage"), (self.tree(depth - 1), self.doc("custom-usage")))
        if k == "skip":
            # `hide`: the parser's metadata is replaced by Skip; remember what is hidden
            m, kind = self.item(True)
            return Adt("Meta", mv("Skip"), ())
        if k == "dupor":
            # two *different* items with the same visible name and the same help text in two branches of a
            # choice (`--name=MV | --name`, or `--name=MV0 | --name=MV1`): both must be listed; two identical
            # items are listed once
            self.budget += 1
            kn = self.n
            self.n += 1
            has_help = self.pick(2, "help") == 1
            help_ = (lambda: SOME(self.doc("help-%d" % kn))) if has_help else (lambda: NONE)
            iv = lambda n: L.variant_index("Item", n)

            def mk(vn, **kw):
                fl = L.adts["Item"]["variants"][iv(vn)][1]
                return Adt("Item", iv(vn), tuple(kw[f] for f in fl))
            sl = Adt("ShortLong", L.variant_index("ShortLong", "Long"), ("name%d" % kn,))
            variant = self.pick(3, "dup-kind")
            first = mk("Argument", name=sl, shorts=Seq(()), metavar=Adt("Metavar", 0, ("MV%d" % kn,)), env=NONE, help=help_())
            recs = [("arg", "--name%d" % kn, "MV%d" % kn, "help-%d" % kn if has_help else None, False)]
            if variant == 0:
                second = mk("Flag", name=sl, shorts=Seq(()), env=NONE, help=help_())
                recs.append(("flag", "--name%d" % kn, None, "help-%d" % kn if has_help else None, False))
            elif variant == 1:
                second = mk("Argument", name=sl, shorts=Seq(()), metavar=Adt("Metavar", 0, ("OTHER%d" % kn,)), env=NONE, help=help_())
                recs.append(("arg", "--name%d" % kn, "OTHER%d" % kn, "help-%d" % kn if has_help else None, False))
            else:
                second = mk("Argument", name=sl, shorts=Seq(()), metavar=Adt("Metavar", 0, ("MV%d" % kn,)), env=NONE, help=help_())
                recs.append(recs[0])  # identical: de-duplicated
            self.visible.extend(recs)
            mi = lambda it: Adt("Meta", mv("Item"), (it,))
            return Adt("Meta", mv("Or"), (Seq((mi(first), mi(second))),))
        if k == "strict":
            # `positional(..).strict()`: the positional's item wrapped in Meta::Strict
            self.budget += 1
            return Adt("Meta", mv("Strict"), (self.item(False, only="pos")[0],))
        if k == "adjacent":
            a = self.item(False, True)[0]
            if self.pick(2, "adj-group") == 1 and not getattr(self, "in_group", 0):
                # a `group_help` section inside the adjacent group: its member is listed under the group's
                # header like any other item (with or without help text)
                g = "group-%d" % len(self.groups)
                self.groups.append(g)
                self.headers = getattr(self, "headers", []) + [g]
                self.in_group = 1
                kind = ["flag", "arg"][self.pick(2, "leaf")]
                b = Adt("Meta", mv("Subsection"), (self.item(False, False, only=kind)[0], self.doc(g)))
                self.in_group = 0
            else:
                b = self.tree(depth - 1, True)
            return Adt("Meta", mv("Adjacent"), (Adt("Meta", mv("And"), (Seq((a, b)),)),))
        raise ValueError(k)


def strip_custom(L, m):
    """the same tree without CustomUsage wrappers"""
    names = [n for n, _ in L.adts["Meta"]["variants"]]
    k = names[m.var]
    if k == "CustomUsage":
        return strip_custom(L, m.fields[0])
    if k in ("And", "Or"):
        return Adt("Meta", m.var, (Seq(tuple(strip_custom(L, x) for x in m.fields[0].items)),))
    if k in ("Optional", "Required", "Many", "Adjacent", "Strict"):
        return Adt("Meta", m.var, (strip_custom(L, m.fields[0]),))
    if k in ("Subsection", "Suffix"):
        return Adt("Meta", m.var, (strip_custom(L, m.fields[0]), m.fields[1]))
    return m


def render_items(ex, meta):
    L = ex.prog.layout
    items = Cell(Adt("HelpItems", 0, (Seq(()),)), "items")
    ex.call(parse_callee("HelpItems::append_meta"), [Ref(items, ()), Ref(Cell(meta, "meta"), ())])
    doc = Cell(ex.call(parse_callee("<Doc as Default>::default"), []), "doc")
    ex.call(parse_callee("Doc::write_help_item_groups"), [Ref(doc, ()), items.v, True])
    mono = Adt("Color", L.variant_index("Color", "Monochrome"), ())
    return ex.call(parse_callee("Doc::render_console"), [Ref(doc, ()), True, mono, 100])


def run_tree_job(job, build):
    prog = tok.load_program(build, "none")
    ex = new_exec(prog)
    out = {"stats": None, "cex": [], "inconclusive": [], "samples": [], "nontrivial": 0, "obligations": 0}
    depth, budget, shard = job["depth"], job["budget"], job["shard"]

    def harness(ex):
        ex.info_default = ex.call(parse_callee("<Info as Default>::default"), [])
        g = Gen(ex, budget)
        # shard on the first two generator choices (root node kind, then the next choice)
        g.force = list(job["force"])
        meta = g.tree(depth)
        text = render_items(ex, meta)
        text2 = None
        if getattr(g, "custom", 0):
            text2 = render_items(ex, strip_custom(ex.prog.layout, meta))
        return (g, text, text2, meta)

    def on_path(ex, r):
        out["obligations"] += 1
        if ex.pc:
            out["nontrivial"] += 1
        if r.kind != "ok":
            out["cex"].append({"kind": "help-panics", "info": str(r.info), "job": job["id"]})
            return
        g, text, text2, meta = r.value
        text = rda(text)
        if not isinstance(text, str):
            out["inconclusive"].append("help text is not concrete")
            return
        bad = []
        lines = text.split("\n")
        for kind, name, mv, hlp, adj in g.visible:
            def names_of(ln):
                return ln.replace("=", " ").replace(",", " ").split()
            item_lines = [ln for ln in lines if ln.startswith("    ") and name in names_of(ln)[:3]]
            # the usage line of an adjacent group is written with the *short* name of an item that has both
            alt = ("-" + chr(ord("a") + int(name[5:]))) if name.startswith("--arg") else name
            header_lines = [ln for ln in lines if ln.startswith("  ") and not ln.startswith("    ") and (name in names_of(ln) or alt in names_of(ln))]
            # distinct items sharing this name / this help text (identical items are listed once)
            want = len(set(v for v in g.visible if v[1] == name))
            want_h = len(set(v for v in g.visible if v[3] == hlp)) if hlp else 0
            if adj and not hlp:
                # inside an adjacent group an undocumented member is shown in the group's usage line only
                if len(item_lines) + len(header_lines) < 1:
                    bad.append("%s %s of an adjacent group is not mentioned at all" % (kind, name))
                n = want
            else:
                n = len(item_lines)
            if n != want:
                bad.append("%s %s is listed %d times, %d distinct item(s) carry that name" % (kind, name, n, want))
            if mv and text.count(mv) < 1:
                bad.append("metavariable %s of %s is missing" % (mv, name))
            if hlp and text.count(hlp) != want_h:
                bad.append("help text of %s appears %d times, expected %d" % (name, text.count(hlp), want_h))
        for name in g.absent:
            lines = [ln for ln in text.split("\n") if ln.strip().startswith(name) or (" " + name) in ln.split("  ")[0]]
            # adjacent groups print their usage line as a header: that is usage, not an item listing
            lines = [ln for ln in lines if not ln.startswith("  ") or ln.startswith("    ")]
            if any(ln.strip().startswith(name) and ln.startswith("    ") for ln in text.split("\n")):
                bad.append("%s must not be listed" % name)
        for hdr in getattr(g, "headers", []):
            if text.count(hdr) != 1:
                bad.append("header of the group_help section %s appears %d times" % (hdr, text.count(hdr)))
        if text2 is not None and rda(text2) != text:
            bad.append("custom_usage changes the item lists")
        if bad:
            out["cex"].append({"kind": "help-items", "why": "; ".join(bad[:3]), "text": text, "visible": [v[1] for v in g.visible], "absent": g.absent,
                               "meta": stable_repr(meta)[:600], "job": job["id"]})
        elif len(out["samples"]) < 1 and len(g.visible) >= 2:
            out["samples"].append({"visible": [v[1] for v in g.visible], "not_listed": g.absent, "text": text})
    try:
        ex.explore(harness, on_path, max_paths=400000)
    except (Unmodelled, BoundExceeded, ExecError) as e:
        out["inconclusive"].append("%s %s [%s]" % (type(e).__name__, e, "/".join(ex.callstack[-3:])))
    out["stats"] = dict(ex.stats)
    out["models_used"] = dict(ex.model_hits)
    out["fn_hits"] = dict(ex.fn_hits)
    return out


# ------------------------------------------------------------------------------------------------

def run_name_job(job, build):
    prog = tok.load_program(build, "none")
    ex = tok.new_exec(prog)
    L = prog.layout
    ns, nl = job["shorts"], job["longs"]
    which = job["which"]
    out = {"stats": None, "cex": [], "inconclusive": [], "samples": [], "nontrivial": 0, "obligations": 0}

    def harness(ex):
        shorts = [ex.fresh("s", 32) for _ in range(ns)]
        longs = [ex.fresh("l", "int") for _ in range(nl)]
        for i in range(len(shorts)):
            for j in range(i):
                ex.assume(shorts[i] != shorts[j])
        for i in range(len(longs)):
            ex.assume(longs[i] >= 0)
            for j in range(i):
                ex.assume(longs[i] != longs[j])
        fl = L.adts["NamedArg"]["fields"]
        d = {"short": Seq(tuple(shorts)), "long": Seq(tuple(SymStr(x) for x in longs)), "env": Seq(()), "help": NONE}
        named = Adt("NamedArg", 0, tuple(d[f] for f in fl))
        if which == "flag":
            p = ex.call(parse_callee("params::build_flag_parser"), [True, SOME(False), named])
        else:
            p = ex.call(parse_callee("params::build_argument"), [named, "M"])
        meta = ex.call(parse_callee("<P as Parser<T>>::meta"), [Ref(Cell(p, "p"), ())])
        return (shorts, longs, named, meta)

    def on_path(ex, r):
        out["obligations"] += 1
        if ex.pc:
            out["nontrivial"] += 1
        if r.kind != "ok":
            out["cex"].append({"kind": "name-panics", "info": str(r.info), "job": job["id"]})
            return
        shorts, longs, named, meta = r.value
        names = [n for n, _ in L.adts["Meta"]["variants"]]
        m = meta
        while names[m.var] in ("Optional", "Required"):
            m = m.fields[0]
        bad = None
        if ns == 0 and nl == 0:
            if names[m.var] != "Skip":
                bad = "unnamed item shows up in the metadata"
        elif names[m.var] != "Item":
            bad = "named item has no Item metadata (%s)" % names[m.var]
        else:
            it = m.fields[0]
            ifl = L.adts["Item"]["variants"][it.var][1]
            sl = it.fields[ifl.index("name")]
            slv = [n for n, _ in L.adts["ShortLong"]["variants"]][sl.var]
            shown_s = sl.fields[0] if slv in ("Short", "Both") else None
            shown_l = sl.fields[-1] if slv in ("Long", "Both") else None
            conds = []
            if (shown_s is None) != (ns == 0) or (shown_l is None) != (nl == 0):
                bad = "shown name kinds %s do not match the declared names" % slv
            else:
                if shown_s is not None:
                    conds.append(val_eq(ex, shown_s, shorts[0]))
                if shown_l is not None:
                    conds.append(val_eq(ex, shown_l, SymStr(longs[0])))
                from mirsym.models import and_all
                eq = and_all(ex, conds)
                if eq is False or (eq is not True and ex.prove(eq) is not None):
                    bad = "the shown name is not the first declared short / long name"
                # and the shown names are accepted
                ai = lambda n: L.variant_index("Arg", n)
                nref = Ref(Cell(named, "named"), ())
                if bad is None and shown_s is not None:
                    a = Adt("Arg", ai("Short"), (shown_s, False, "os"))
                    ok = ex.call(parse_callee("NamedArg::matches_arg"), [nref, Ref(Cell(a, "a"), ()), False])
                    if ok is False or (ok is not True and ex.prove(ok) is not None):
                        bad = "the shown short name is not accepted"
                if bad is None and shown_l is not None:
                    a = Adt("Arg", ai("Long"), (shown_l, False, "os"))
                    ok = ex.call(parse_callee("NamedArg::matches_arg"), [nref, Ref(Cell(a, "a"), ()), False])
                    if ok is False or (ok is not True and ex.prove(ok) is not None):
                        bad = "the shown long name is not accepted"
        if bad:
            out["cex"].append({"kind": "shown-name", "why": bad, "job": job["id"]})
        elif not out["samples"]:
            out["samples"].append({"primitive": which, "declared": "%d short, %d long names" % (ns, nl), "shown": "first of each, accepted"})
    try:
        ex.explore(harness, on_path)
    except (Unmodelled, BoundExceeded, ExecError) as e:
        out["inconclusive"].append("%s %s [%s]" % (type(e).__name__, e, "/".join(ex.callstack[-3:])))
    out["stats"] = dict(ex.stats)
    out["models_used"] = dict(ex.model_hits)
    out["fn_hits"] = dict(ex.fn_hits)
    return out


def run_order_job(job, build):
    prog = tok.load_program(build, "none")
    ex = new_exec(prog)
    g = CORPUS[job["grammar"]]
    L = prog.layout
    out = {"stats": None, "cex": [], "inconclusive": [], "samples": [], "nontrivial": 1, "obligations": 0}

    def harness(ex):
        p = ex.call(parse_callee(g.builder), [])
        gen = Gen(ex, 0)
        fl = L.adts["OptionParser"]["fields"]
        info = p.fields[fl.index("info")]
        ifl = L.adts["Info"]["fields"]
        vals = list(info.fields)
        vals[ifl.index("descr")] = SOME(gen.doc("DESCR-TEXT"))
        vals[ifl.index("header")] = SOME(gen.doc("HEADER-TEXT"))
        vals[ifl.index("footer")] = SOME(gen.doc("FOOTER-TEXT"))
        info = Adt("Info", 0, tuple(vals))
        inner = p.fields[fl.index("inner")]
        meta = ex.call(parse_callee("<P as Parser<T>>::meta"), [Ref(Cell(inner, "inner"), ())])
        hmeta = ex.call(parse_callee("<Info as Parser<ExtraParams>>::meta"), [Ref(Cell(info, "info"), ())])
        doc = ex.call(parse_callee("meta_help::render_help"), [Ref(Cell(Seq(("app",)), "path"), ()), Ref(Cell(info, "info"), ()), Ref(Cell(meta, "meta"), ()), Ref(Cell(hmeta, "hmeta"), ()), True])
        mono = Adt("Color", L.variant_index("Color", "Monochrome"), ())
        return ex.call(parse_callee("Doc::render_console"), [Ref(Cell(doc, "doc"), ()), True, mono, 100])

    def on_path(ex, r):
        out["obligations"] += 1
        if r.kind != "ok":
            out["cex"].append({"kind": "help-panics", "info": str(r.info), "job": job["id"]})
            return
        text = rda(r.value)
        marks = ["DESCR-TEXT", "Usage", "HEADER-TEXT", "Available", "--help", "FOOTER-TEXT"]
        pos = [text.find(m) for m in marks]
        if any(p < 0 for p in pos) or pos != sorted(pos):
            out["cex"].append({"kind": "help-order", "why": "order of description / usage / header / items / footer: %r" % dict(zip(marks, pos)), "text": text, "job": job["id"]})
        else:
            out["samples"].append({"grammar": g.name, "text": text})
    try:
        ex.explore(harness, on_path)
    except (Unmodelled, BoundExceeded, ExecError) as e:
        out["inconclusive"].append("%s %s [%s]" % (type(e).__name__, e, "/".join(ex.callstack[-3:])))
    out["stats"] = dict(ex.stats)
    out["models_used"] = dict(ex.model_hits)
    out["fn_hits"] = dict(ex.fn_hits)
    return out


def make_jobs(tier, seed, build):
    jobs = []
    nshards = 13
    for depth, budget in ((1, 1), (2, 2)) if tier == "quick" else ((1, 1), (2, 2), (2, 3)):
        for a in range(nshards):
            for b in range(nshards if depth > 1 else 1):
                force = [a, b] if depth > 1 else [a]
                jobs.append({"id": "tree:%d:%d:%s" % (depth, budget, "-".join(map(str, force))), "kind": "tree", "depth": depth, "budget": budget, "force": force,
                             "shard": a, "nshards": nshards, "weight": depth * budget})
    for which in ("flag", "arg"):
        for ns in range(0, 3):
            for nl in range(0, 3):
                jobs.append({"id": "name:%s:%d:%d" % (which, ns, nl), "kind": "name", "which": which, "shorts": ns, "longs": nl})
    for gname in ("g1", "p1", "c1", "h1"):
        jobs.append({"id": "order:%s" % gname, "kind": "order", "grammar": gname})
    return jobs


def run_job(job, build):
    k = job["kind"]
    if k == "tree":
        return run_tree_job(job, build)
    if k == "name":
        return run_name_job(job, build)
    return run_order_job(job, build)


def finish(results, jobs, build, out, tier, seed, wall):
    from . import framework as fw
    st = fw.merge_stats(results)
    samples = []
    for r in results:
        if r.get("error"):
            out.inconc("job %s crashed: %s" % (r["job"], r["error"]))
        for w in r.get("inconclusive", []):
            out.inconc("%s: %s" % (r["job"], w))
        for s in r.get("samples", [])[:1]:
            if len(samples) < 10:
                samples.append(s)
        for c in r.get("cex", []):
            if c["kind"] == "help-items":
                out.violation("items:%s" % c["why"][:60], "help item lists: %s; visible %r, not to be listed %r; tree %s; text:\n%s" % (c["why"], c["visible"], c["absent"], c["meta"][:300], c["text"]), c)
            else:
                out.violation("%s:%s" % (c["kind"], c.get("job")), "%s: %s" % (c["kind"], c.get("why") or c.get("info")), c)
    cov = {
        "evaluations": st["queries"] + sum(r.get("obligations", 0) for r in results),
        "distinct_nontrivial": sum(r.get("nontrivial", 0) for r in results),
        "rule": "tree jobs: one case = one Meta tree shape chosen through the solver (node kinds, leaf kinds, help present or not), rendered to text from MIR; name jobs: one feasible path over a symbolic NamedArg",
        "samples": samples,
        "states": max(st["paths"], 1),
        "transitions": max(st["decisions"], 1),
        "traces_validated_against_impl": 0,
        "exhaustive": not out.inconclusive,
        "paths": st["paths"],
        "queries": {"total": st["queries"], "sat": st["sat"], "unsat": st["unsat"], "unknown": st["unknown"]},
        "solver_time_s": st["solver_s"],
        "obligations": sum(r.get("obligations", 0) for r in results),
        "bounds": {"trees": "depth <= 2, <= %d inner nodes (11 node kinds, 4 leaf kinds x help/no help); unique names per leaf" % (2 if tier == "quick" else 3),
                   "names": "0..2 short and 0..2 long names, flag and argument", "order": ["g1", "p1", "c1", "h1"]},
        "jobs": {k: len([j for j in jobs if j["kind"] == k]) for k in ("tree", "name", "order")},
        "functions_encoded": sorted(fw.merge_counts(results, "fn_hits")),
        "models_used": fw.merge_counts(results, "models_used"),
        "cuts": {"BTreeSet<String>": "modelled as a list of keys (insert reports novelty)", "Debug formatting of keys": "an injective structural rendering (Dedup only needs injectivity)",
                 "usage line": "write_meta is executed only where render_help / adjacent headers need it; normalisation of the usage line is not asserted"},
        "repo_src_hash": build.get("repo_hash"),
    }
    assumptions = [
        "hidden parts are Meta::Skip (ParseHide::meta); leaves carry unique names so 'listed exactly once' is well defined; duplicates with different help are not generated",
        "the tree generator does not produce ill-formed trees (positional before named inside And) - render_help's invariant check is only executed in the order jobs on real grammars",
        "help text layout is C13's subject; here the text is only searched for names, metavariables and help strings",
    ]
    return {"tier": tier, "seed": seed, "level": "model_checking", "coverage": cov, "assumptions": assumptions}
