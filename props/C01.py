"""C01 - parsing conforms to the declared grammar (differential against spec/grammar.py)."""
import time
import z3
from mirsym.models import val_eq
from spec import grammar as G
from . import tok
from .tokdiff import TokOracle, help_names, assume_not_named, spec_env, run_tok_job
from .corpus import CORPUS, C01_GRAMMARS

PROP = "C01"


class Oracle(TokOracle):
    assumptions = [
        "no item is the help flag (-h/--help): help requests are C10's subject",
        "an enclosing level's named item never appears to the right of a subcommand name (outside the property's quantifier)",
        "word items are not dash-prefixed clusters with undeclared letters (outside the property's quantifier); at the token layer a Word is any id",
    ]

    def assume(self, ex, g, words, parser):
        (hs, hl), (vs, vl), has_version = help_names(ex, parser)
        assume_not_named(ex, words, hs, hl)
        if has_version:
            assume_not_named(ex, words, vs, vl)

    def judge(self, ex, g, words, cls, payload, state, report, out):
        items = G.items_of_words(words)
        env = spec_env(ex)

        def leaf(ex2, sres):
            out["spec_leaves"] += 1
            if sres[0] == "outside":
                out["outside"] = out.get("outside", 0) + 1
                return
            if sres[0] == "ok":
                if cls != "ok":
                    report("accepts-sentence", words, (cls, payload), ["ok", None], sres[1:])
                    return
                eq = val_eq(ex2, payload, sres[1])
                m = ex2.prove(eq)
                if m is not None:
                    ex2.solver.push()
                    ex2.solver.add(z3.Not(eq))
                    report("value-differs", words, (cls, payload), ["ok", repr(sres[1])])
                    ex2.solver.pop()
            else:
                if cls != "stderr":
                    report("rejects-non-sentence", words, (cls, payload), ["stderr", sres[1]])
        ex.sub_explore(lambda e: G.run_spec(e, env, g.level, items), leaf)


GRAMMARS = C01_GRAMMARS


def make_jobs(tier, seed, build, grammars=None):
    jobs = []
    nmax = 3 if tier == "quick" else 4
    for gname in (grammars or GRAMMARS):
        g = CORPUS[gname]
        for n in range(0, nmax + 1):
            for shape in tok.all_shapes(n, g.decl):
                jobs.append({"id": "%s:%s" % (gname, ",".join(shape)), "grammar": gname, "shape": shape, "fs": "none"})
    return jobs


def run_job(job, build):
    return run_tok_job(job, build, CORPUS, Oracle())


def finish(results, jobs, build, out, tier, seed, wall):
    from .tokdiff import finish_tok
    nmax = 3 if tier == "quick" else 4
    return finish_tok(PROP, results, jobs, build, out, tier, seed, wall, Oracle(), CORPUS,
                      {"items": "0..=%d" % nmax, "grammars": len(CORPUS), "step_budget_per_path": 600000})
