"""C01 - parsing conforms to the declared grammar (differential against spec/grammar.py)."""
import time
import z3
from mirsym.models import val_eq
from spec import grammar as G
from . import tok
from .tokdiff import TokOracle, help_names, assume_not_named, spec_env, run_tok_job
from .corpus import CORPUS, C01_GRAMMARS

PROP = "C01"


class Oracle(TokOracle):
    assumptions = [
        "no item is the help flag (-h/--help): help requests are C10's subject",
        "an enclosing level's named item never appears to the right of a subcommand name (outside the property's quantifier)",
        "word items are not dash-prefixed clusters with undeclared letters (outside the property's quantifier); at the token layer a Word is any id",
    ]

    def assume(self, ex, g, words, parser):
        (hs, hl), (vs, vl), has_version = help_names(ex, parser)
        assume_not_named(ex, words, hs, hl)
        if has_version:
            assume_not_named(ex, words, vs, vl)

    def judge(self, ex, g, words, cls, payload, state, report, out):
        items = G.items_of_words(words)
        env = spec_env(ex)

        def leaf(ex2, sres):
            out["spec_leaves"] += 1
            if sres[0] == "outside":
                out["outside"] = out.get("outside", 0) + 1
                return
            if sres[0] == "ok":
                if cls != "ok":
                    report("accepts-sentence", words, (cls, payload), ["ok", None], sres[1:])
                    return
                eq = val_eq(ex2, payload, sres[1])
                m = ex2.prove(eq)
                if m is not None:
                    ex2.solver.push()
                    ex2.solver.add(z3.Not(eq))
                    report("value-differs", words, (cls, payload), ["ok", repr(sres[1])])
                    ex2.solver.pop()
            else:
                if cls == "stdout" and all(w.form == "dd" for w in words) and getattr(g, "usage_fallback", False):
                    return  # fallback_to_usage: a line with no item (besides the separator) is answered with the usage text on stdout
                if cls != "stderr":
                    report("rejects-non-sentence", words, (cls, payload), ["stderr", sres[1]])
        ex.sub_explore(lambda e: G.run_spec(e, env, g.level, items), leaf)


GRAMMARS = C01_GRAMMARS


def make_jobs(tier, seed, build, grammars=None):
    jobs = []
    nmax = 3 if tier == "quick" else 4
    for gname in (grammars or GRAMMARS):
        g = CORPUS[gname]
        for shape in tok.all_shapes_by_words(nmax, g.decl, full_upto=3):
            jobs.append({"id": "%s:%s" % (gname, ",".join(shape)), "grammar": gname, "shape": shape, "fs": "none"})
    if grammars is None:
        for gname in CORPUS:
            jobs.append({"id": "shorts:%s" % gname, "kind": "shorts", "grammar": gname, "shape": ()})
    return jobs


def run_shorts_job(job, build):
    """hand-off obligation between the token layer and the real code: the short flags / short
    arguments `run_inner` collects for the tokenizer (Parser::meta + Meta::collect_shorts, executed
    from MIR) are exactly the sets the token layer assumes for this grammar"""
    from mirsym.engine import parse_callee, Unmodelled, ExecError, BoundExceeded
    from mirsym.values import Cell, Ref, Seq, PyIter, Adt, Opaque
    from mirsym.models import rda, NONE
    prog = tok.load_program(build, "none")
    ex = tok.new_exec(prog)
    g = CORPUS[job["grammar"]]
    out = {"stats": None, "cex": [], "inconclusive": [], "samples": [], "nontrivial": 1, "classes": {}, "spec_leaves": 0}

    def harness(ex):
        parser = ex.call(parse_callee(g.builder), [])
        L = ex.prog.layout
        inner = parser.fields[L.adts["OptionParser"]["fields"].index("inner")]
        meta = ex.call(parse_callee("<P as Parser<T>>::meta"), [Ref(Cell(inner, "inner"), ())])
        flags, args = Cell(Seq(()), "flags"), Cell(Seq(()), "args")
        ex.call(parse_callee("Meta::collect_shorts"), [Ref(Cell(meta, "meta"), ()), Ref(flags, ()), Ref(args, ())])
        # the table run_inner really hands to the tokenizer: the level's own shorts plus the help and version
        # shorts (a subcommand's `-V` inside a cluster relies on the top level registering it unconditionally)
        seen = {}

        def m_construct(ex_, c, a):
            seen["flags"] = sorted(set(rda(a[1]).items))
            seen["args"] = sorted(set(rda(a[2]).items))
            return tok.mk_state(ex_, [])
        ex.models = dict(ex.models)
        ex.models["State::construct"] = m_construct
        ex.models["OptionParser::run_subparser"] = lambda ex_, c, a: Opaque("proceed", ())
        fl = L.adts["Args"]["fields"]
        d = {"items": PyIter("vec_into", Seq(()), 0), "name": NONE, "c_rev": NONE}
        ex.call(parse_callee("OptionParser::run_inner"), [Ref(Cell(parser, "p"), ()), Adt("Args", 0, tuple(d[f] for f in fl))])
        ex.c01_table = seen
        return (sorted(set(flags.v.items)), sorted(set(args.v.items)))

    def on_path(ex, r):
        if r.kind != "ok":
            out["inconclusive"].append("collect_shorts panicked: %r" % (r.info,))
            return
        fl, ar = r.value
        want_f = sorted(set(ord(c) for c in g.own_short_flags))
        want_a = sorted(set(ord(c) for c in g.own_short_args))
        out["samples"].append({"grammar": g.name, "short_flags": "".join(map(chr, fl)), "short_args": "".join(map(chr, ar))})
        table = getattr(ex, "c01_table", {})
        want_tf = sorted(set(g.decl.short_flags))
        want_ta = sorted(set(g.decl.short_args))
        if table.get("flags") != want_tf or table.get("args") != want_ta:
            out["cex"].append({"kind": "tokenizer-table", "grammar": g.name, "shape": [], "argv": [], "env": {},
                               "predicted": ["shorts", "flags=%s args=%s" % ("".join(map(chr, table.get("flags") or [])), "".join(map(chr, table.get("args") or [])))],
                               "expected": "flags=%s args=%s (own shorts + help and version shorts)" % ("".join(map(chr, want_tf)), "".join(map(chr, want_ta))), "extra": None,
                               "native": ["shorts", "n/a"], "reproduced": True})
        if fl != want_f or ar != want_a:
            out["cex"].append({"kind": "short-name-table", "grammar": g.name, "shape": [], "argv": [], "env": {},
                               "predicted": ["shorts", "flags=%s args=%s" % ("".join(map(chr, fl)), "".join(map(chr, ar)))],
                               "expected": "flags=%s args=%s" % (g.own_short_flags, g.own_short_args), "extra": None,
                               "native": ["shorts", "n/a"], "reproduced": True})
    try:
        ex.explore(harness, on_path)
    except (Unmodelled, BoundExceeded, ExecError) as e:
        out["inconclusive"].append("%s %s" % (type(e).__name__, e))
    out["stats"] = dict(ex.stats)
    out["models_used"] = dict(ex.model_hits)
    out["fn_hits"] = dict(ex.fn_hits)
    out["validated"] = 0
    out["validated_agree"] = 0
    return out


def run_job(job, build):
    if job.get("kind") == "shorts":
        return run_shorts_job(job, build)
    return run_tok_job(job, build, CORPUS, Oracle())


def finish(results, jobs, build, out, tier, seed, wall):
    from .tokdiff import finish_tok
    nmax = 3 if tier == "quick" else 4
    return finish_tok(PROP, results, jobs, build, out, tier, seed, wall, Oracle(), CORPUS,
                      {"argv_words": "0..=%d (each word tokenizes to 1 or 2 items, so up to %d items)" % (nmax, 2 * nmax), "grammars": len(GRAMMARS), "step_budget_per_path": 600000})
