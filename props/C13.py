"""C13 - console rendering never loses text and respects the width.

Doc::render_console (with the Splitter) is executed from MIR on the block structures bpaf itself
emits (plain text, styled runs, paragraph block, header, definition list = term + body, sections),
text fragments of symbolic bytes over {space, \\n, a, b, 2-byte non-ASCII char}:
  content   every byte the renderer inserts is a space or a newline, and the user bytes that are not
            whitespace appear in the output exactly once and in order (provenance is exact: inserted
            bytes are concrete, user bytes stay symbolic) - for every width in the job's range and
            full rendering; for the short form the non-whitespace output is a prefix of the input's,
            and the whole of it when the text has no paragraph break
  width     a concrete multi-word filler text next to symbolic text, max_width symbolic in 40..=48:
            every output line is at most max_width + 2 columns wide unless what follows its
            indentation is a single unbreakable word
Outside: widths 49..=300 and longer texts (the renderer compares with max_width in one place only
- an argument, not a solver result), colours, code blocks of the docgen splitter.
"""
import itertools
import z3

from mirsym.engine import parse_callee, Unmodelled, ExecError, BoundExceeded, Panic, Infeasible, Exec
from mirsym.values import *
from mirsym.models import NONE, SOME, rd, rda, wr
from mirsym import fmtmodels as FM
from mirsym import textmodels as TM
from . import tok
from . import C16

PROP = "C13"
FEATURE_SETS = ("none",)
ALPHA = [0x20, 0x0A, 0x61, 0x62, 0xC3, 0xA9]
FILLER = "aaaa bbbb cccc dddd eeee ffff gggg hhhh iiii jjjj kk"
# a word that fits on no line (52 > 48 + 2), in the middle of ordinary words
FILLER_LONG = "aaaa bbbb " + "c" * 52 + " dddd eeee"
FILLERS = [FILLER, FILLER_LONG]

TEMPLATES = dict(C16.TEMPLATES)
TEMPLATES["deflist2"] = [("S", "DefinitionList"), ("S", "ItemTerm"), ("T", "Literal"), ("T", "Metavar"), ("E", "ItemTerm"), ("S", "ItemBody"), ("T", "Text"), ("E", "ItemBody"),
                         ("S", "ItemTerm"), ("T", "Literal"), ("E", "ItemTerm"), ("S", "ItemBody"), ("T", "Text"), ("E", "ItemBody"), ("E", "DefinitionList")]


# an error message as error.rs builds it: plain text around a quoted term reference (backticks in monochrome)
TEMPLATES["termref"] = [("T", "Text"), ("S", "TermRef"), ("T", "Invalid"), ("E", "TermRef"), ("T", "Text")]

# a usage line as bpaf writes it: every bracket, name and `]...` is a token of its own, so wraps are
# decided at chunks such as `]...`
_USAGE_ITEMS = 7
TEMPLATES["usage"] = [("T", "Text"), ("T", "Literal"), ("T", "Text")] * _USAGE_ITEMS
USAGE_FIXED = {}
for _i in range(_USAGE_ITEMS):
    USAGE_FIXED[str(3 * _i)] = "["
    USAGE_FIXED[str(3 * _i + 1)] = "--" + "abcdefg"[_i] * (2 + _i % 3)
    USAGE_FIXED[str(3 * _i + 2)] = "]... " if _i % 2 == 0 else "] "


def text_exec(prog, budget=2500000):
    models = dict(TM.TEXT_MODELS)
    models.update(FM.FMT_MODELS)

    def m_truncate(ex, c, args):
        v = rd(args[0])
        n = args[1]
        if type(v) is BStr:
            wr(args[0], BStr(v.b[:n]))
        else:
            wr(args[0], v.encode()[:n].decode())
        return UNIT
    models["String::truncate"] = m_truncate
    ex = Exec(prog, models, step_budget=budget)
    TM.install_hooks(ex)
    return ex


def mk_doc(ex, template, lens, fixed=None):
    """like C16.mk_doc; `fixed` maps text index -> concrete string"""
    L = ex.prog.layout
    tokens = []
    payload = []
    user = []
    ti = 0
    for kind, arg in template:
        if kind == "T":
            if fixed and ti in fixed:
                bs = list(fixed[ti].encode())
            else:
                bs = [ex.fresh("t", 8) for _ in range(lens[ti])]
                for b in bs:
                    ex.assume(z3.Or(*[b == a for a in ALPHA]))
                if not TM.utf8_valid(ex, bs):
                    raise Infeasible()
            n = len(bs)
            ti += 1
            payload.extend(bs)
            user.append(bs)
            vi = L.variant_index("Token", "Text")
            fl = L.adts["Token"]["variants"][vi][1]
            d = {"bytes": n, "style": Adt("Style", L.variant_index("Style", arg), ())}
            tokens.append(Adt("Token", vi, tuple(d[f] for f in fl)))
        else:
            vn = "BlockStart" if kind == "S" else "BlockEnd"
            tokens.append(Adt("Token", L.variant_index("Token", vn), (Adt("Block", L.variant_index("Block", arg), ()),)))
    dfl = L.adts["Doc"]["fields"]
    # a Text token never splits a character: the payload as a whole is valid UTF-8 by construction
    d = {"payload": BStr(tuple(payload)), "tokens": Seq(tuple(tokens))}
    return Adt("Doc", 0, tuple(d[f] for f in dfl)), user


def conc(m, bs):
    return bytes(b if isinstance(b, int) else m.eval(b, model_completion=True).as_long() for b in bs)


def is_ws(ex, b):
    if isinstance(b, int):
        return b in (0x20, 0x0A)
    return ex.branch(z3.Or(b == 0x20, b == 0x0A), "ws")


def run_content_job(job, build):
    prog = tok.load_program(build, "none")
    ex = text_exec(prog)
    template = TEMPLATES[job["template"]]
    lens = job["lens"]
    full = job["full"]
    wlo, whi = job["width"]
    out = {"stats": None, "cex": [], "inconclusive": [], "samples": [], "nontrivial": 0, "obligations": 0}
    L = prog.layout
    mono = Adt("Color", L.variant_index("Color", "Monochrome"), ())

    def harness(ex):
        doc, user = mk_doc(ex, template, lens)
        if wlo == whi:
            width = wlo
        else:
            width = ex.fresh("width", 64)
            ex.assume(z3.And(z3.UGE(width, wlo), z3.ULE(width, whi)))
        res = ex.call(parse_callee("Doc::render_console"), [Ref(Cell(doc, "doc"), ()), full, mono, width])
        return (user, res, width)

    def on_path(ex, r):
        if r.kind != "ok":
            m = ex.model()
            out["cex"].append({"kind": "console-panics", "info": str(r.info), "template": job["template"], "lens": lens, "full": full, "model": str(m)[:300]})
            return
        user, res, width = r.value
        ob = list(TM.to_bstr(res).b)
        if ex.pc:
            out["nontrivial"] += 1

        def oracle(e):
            # inserted bytes are whitespace; user bytes in order
            kept_out = []
            # a term reference is quoted with backticks in monochrome: two inserted bytes per TermRef block
            ticks = 2 * sum(1 for k_, v_ in template if k_ == "S" and v_ == "TermRef")
            for b in ob:
                if isinstance(b, int):
                    if b == 0x60 and ticks > 0:
                        ticks -= 1
                        continue
                    if b not in (0x20, 0x0A):
                        return "renderer inserted the non-whitespace byte %r" % chr(b)
                elif not is_ws(e, b):
                    kept_out.append(b)
            kept_in = []
            para = False
            flat = [b for u in user for b in u]
            for i, b in enumerate(flat):
                if not is_ws(e, b):
                    kept_in.append(b)
            if not full:
                # paragraph break inside one text fragment = two consecutive newlines
                for u in user:
                    for i in range(len(u) - 1):
                        if e.branch(z3.And(u[i] == 0x0A, u[i + 1] == 0x0A), "para"):
                            para = True
            a = [x.get_id() for x in kept_out]
            b_ = [x.get_id() for x in kept_in]
            if full:
                if a != b_:
                    return "non-whitespace content differs: %d bytes out, %d bytes in%s" % (len(a), len(b_), "" if sorted(a) != sorted(b_) else " (reordered)")
            else:
                if a != b_[:len(a)]:
                    return "short form is not a prefix of the text"
                if not para and a != b_:
                    return "short form drops text although there is no paragraph break"
            return None

        def leaf(e, bad):
            out["obligations"] += 1
            if bad:
                m = e.model()
                w = width if isinstance(width, int) else m.eval(width, model_completion=True).as_long()
                out["cex"].append({"kind": "console-content", "why": bad, "template": job["template"], "lens": lens, "full": full, "width": w,
                                   "text": [conc(m, u).decode("utf-8", "replace") for u in user], "output": conc(m, ob).decode("utf-8", "replace")})
        ex.sub_explore(oracle, leaf)
        if len(out["samples"]) < 1:
            m = ex.model()
            out["samples"].append({"template": job["template"], "full": full, "text": [conc(m, u).decode("utf-8", "replace") for u in user],
                                   "output": conc(m, ob).decode("utf-8", "replace")})
    try:
        ex.explore(harness, on_path, max_paths=200000)
    except (Unmodelled, BoundExceeded, ExecError) as e:
        out["inconclusive"].append("%s %s [%s]" % (type(e).__name__, e, "/".join(ex.callstack[-3:])))
    out["stats"] = dict(ex.stats)
    out["models_used"] = dict(ex.model_hits)
    out["fn_hits"] = dict(ex.fn_hits)
    return out


def run_width_job(job, build):
    prog = tok.load_program(build, "none")
    ex = text_exec(prog, 6000000)
    template = TEMPLATES[job["template"]]
    lens = job["lens"]
    fixed = {int(k): v for k, v in job["fixed"].items()}
    out = {"stats": None, "cex": [], "inconclusive": [], "samples": [], "nontrivial": 0, "obligations": 0}
    L = prog.layout
    mono = Adt("Color", L.variant_index("Color", "Monochrome"), ())

    def harness(ex):
        doc, user = mk_doc(ex, template, lens, fixed)
        width = ex.fresh("width", 64)
        ex.assume(z3.And(z3.UGE(width, 40), z3.ULE(width, 48)))
        res = ex.call(parse_callee("Doc::render_console"), [Ref(Cell(doc, "doc"), ()), True, mono, width])
        return (user, res, width)

    def on_path(ex, r):
        if r.kind != "ok":
            out["cex"].append({"kind": "console-panics", "info": str(r.info), "template": job["template"], "lens": lens, "full": True})
            return
        user, res, width = r.value
        ob = list(TM.to_bstr(res).b)
        if ex.pc:
            out["nontrivial"] += 1

        def oracle(e):
            # split into lines (user newlines fork)
            lines = [[]]
            for b in ob:
                nl = (b == 0x0A) if isinstance(b, int) else e.branch(b == 0x0A, "nl")
                if nl:
                    lines.append([])
                else:
                    lines[-1].append(b)
            worst = None
            for ln in lines:
                # columns = characters: continuation bytes do not count
                cols = 0
                for b in ln:
                    cont = (0x80 <= b <= 0xBF) if isinstance(b, int) else e.branch(z3.And(z3.UGE(b, 0x80), z3.ULE(b, 0xBF)), "cont")
                    if not cont:
                        cols += 1
                # single unbreakable word after the indentation?
                i = 0
                while i < len(ln) and ((ln[i] == 0x20) if isinstance(ln[i], int) else e.branch(ln[i] == 0x20, "sp")):
                    i += 1
                rest = ln[i:]
                words = 1
                for b in rest:
                    if (b == 0x20) if isinstance(b, int) else e.branch(b == 0x20, "sp"):
                        words += 1
                if words <= 1:
                    continue
                # definition term followed by body on the same line: the property exempts "what follows
                # its indentation or definition term is a single unbreakable word"
                cond = z3.ULE(z3.BitVecVal(cols, 64), width + 2)
                if e.check(z3.Not(cond)) == z3.sat:
                    e.solver.add(z3.Not(cond))
                    return "line of %d columns: %r" % (cols, "".join(chr(b) if isinstance(b, int) else "?" for b in ln))
            return None

        def leaf(e, bad):
            out["obligations"] += 1
            if bad:
                m = e.model()
                w = m.eval(width, model_completion=True).as_long()
                out["cex"].append({"kind": "console-width", "why": bad, "template": job["template"], "lens": lens, "width": w,
                                   "text": [conc(m, u).decode("utf-8", "replace") for u in user], "output": conc(m, ob).decode("utf-8", "replace")})
        ex.sub_explore(oracle, leaf)
        if len(out["samples"]) < 1:
            m = ex.model()
            out["samples"].append({"template": job["template"], "width": m.eval(width, model_completion=True).as_long(), "output": conc(m, ob).decode("utf-8", "replace")})
    try:
        ex.explore(harness, on_path, max_paths=200000)
    except (Unmodelled, BoundExceeded, ExecError) as e:
        out["inconclusive"].append("%s %s [%s]" % (type(e).__name__, e, "/".join(ex.callstack[-3:])))
    out["stats"] = dict(ex.stats)
    out["models_used"] = dict(ex.model_hits)
    out["fn_hits"] = dict(ex.fn_hits)
    return out


def make_jobs(tier, seed, build):
    jobs = []
    total = 4 if tier == "quick" else 5
    for tname, t in TEMPLATES.items():
        if tname == "usage":
            continue  # all-concrete template of the width jobs
        nt = sum(1 for k, _ in t if k == "T")
        for lens in itertools.product(range(0, 4), repeat=nt):
            if sum(lens) > total or sum(lens) == 0:
                continue
            for full in (True, False):
                for width in ((1, 16), (100, 100)):
                    jobs.append({"id": "content:%s:%s:%d:%d" % (tname, ",".join(map(str, lens)), int(full), width[0]), "kind": "content",
                                 "template": tname, "lens": list(lens), "full": full, "width": list(width)})
    # width: filler text in one fragment, symbolic text in the others
    for tname, fixed_ix in (("plain", 0), ("block", 0), ("deflist", 1), ("deflist2", 2), ("styled", 2), ("section", 1), ("termref", 1), ("termref", 0)):
        t = TEMPLATES[tname]
        nt = sum(1 for k, _ in t if k == "T")
        for lens in itertools.product(range(0, 3), repeat=nt):
            if lens[fixed_ix] != 0:
                continue
            for fi, filler in enumerate(FILLERS):
                ls = list(lens)
                ls[fixed_ix] = len(filler)
                if sum(l for i, l in enumerate(ls) if i != fixed_ix) > ((2 if tier == "quick" else 3) if fi == 0 else (1 if tier == "quick" else 2)):
                    continue
                jobs.append({"id": "width:%s:%s:f%d" % (tname, ",".join(map(str, ls)), fi), "kind": "width", "template": tname, "lens": ls, "fixed": {str(fixed_ix): filler}})
    jobs.append({"id": "width:usage:all-fixed", "kind": "width", "template": "usage",
                 "lens": [len(USAGE_FIXED[str(i)]) for i in range(3 * _USAGE_ITEMS)], "fixed": dict(USAGE_FIXED)})
    return jobs


def run_job(job, build):
    if job["kind"] == "content":
        return run_content_job(job, build)
    return run_width_job(job, build)


def finish(results, jobs, build, out, tier, seed, wall):
    from . import framework as fw
    st = fw.merge_stats(results)
    samples = []
    for r in results:
        if r.get("error"):
            out.inconc("job %s crashed: %s" % (r["job"], r["error"]))
        for w in r.get("inconclusive", []):
            out.inconc("%s: %s" % (r["job"], w))
        for s in r.get("samples", [])[:1]:
            if len(samples) < 10:
                samples.append(s)
        for c in r.get("cex", []):
            if c["kind"] == "console-content":
                out.violation("content:%s:%s:%s" % (c["template"], c["why"][:40], c["full"]),
                              "render_console(%s, full=%s, width=%s) on text %r: %s; output %r" % (c["template"], c["full"], c["width"], c["text"], c["why"], c["output"]), c)
            elif c["kind"] == "console-width":
                out.violation("width:%s" % c["template"], "render_console(%s, width=%s) on text %r: %s; output %r" % (c["template"], c["width"], c["text"], c["why"], c["output"]), c)
            else:
                out.violation("%s:%s" % (c["kind"], r["job"]), "%s: %s" % (c["kind"], c.get("info")), c)
    cov = {
        "evaluations": st["queries"] + sum(r.get("obligations", 0) for r in results),
        "distinct_nontrivial": sum(r.get("nontrivial", 0) for r in results),
        "rule": "one case = one feasible path of render_console (Splitter included) over symbolic text bytes and a symbolic width",
        "samples": samples,
        "states": max(st["paths"], 1),
        "transitions": max(st["decisions"], 1),
        "traces_validated_against_impl": 0,
        "exhaustive": not out.inconclusive,
        "paths": st["paths"],
        "queries": {"total": st["queries"], "sat": st["sat"], "unsat": st["unsat"], "unknown": st["unknown"]},
        "solver_time_s": st["solver_s"],
        "obligations": sum(r.get("obligations", 0) for r in results),
        "bounds": {"content": "8 block templates, text bytes over {space, \\\\n, a, b, é}, total symbolic text <= %d bytes, widths 1..=16 (symbolic) and 100, full and short" % total_len(tier),
                   "width": "6 templates with a concrete filler text (%d columns of short words; %d columns with one 52-column unbreakable word in the middle) + <= %d symbolic bytes, max_width symbolic in 40..=48" % (len(FILLER), len(FILLER_LONG), 2 if tier == "quick" else 3)},
        "jobs": {k: len([j for j in jobs if j["kind"] == k]) for k in ("content", "width")},
        "functions_encoded": sorted(fw.merge_counts(results, "fn_hits")),
        "models_used": fw.merge_counts(results, "models_used"),
        "repo_src_hash": build.get("repo_hash"),
    }
    assumptions = [
        "provenance is exact: bytes inserted by the renderer are concrete, user bytes stay symbolic on every path",
        "documents have the block structures bpaf itself emits (templates in props/C13.py and props/C16.py)",
        "widths 49..=300, longer texts and coloured output are outside the bound",
    ]
    return {"tier": tier, "seed": seed, "level": "model_checking", "coverage": cov, "assumptions": assumptions}


def total_len(tier):
    return 4 if tier == "quick" else 5
