"""C11 - outcome classes map to streams and exit status (in-process clause).

`OptionParser::run` is executed from MIR with
  * Args::current_args()      -> a symbolic argument vector (token layer; State::construct is replaced by the
                                  state it is shown to produce by C02/C09's construct jobs)
  * std::process::exit(code)  -> recorded, halts the path
  * print!/println!/eprintln! -> recorded with their stream (core::fmt interpreted)
  * Doc::render_console       -> cut (opaque text): the *text* is C13's subject
Obligations on every path: the program body is reached (run returns) iff the run yields a value, and
then nothing was printed; otherwise exactly one print happened, to stdout with exit status 0 for
help/version/completion and to stderr with exit status 1 for a parse failure.
ParseFailure::exit_code is additionally checked on all three variants directly.
Grammar fu (fallback_to_usage, no version): a stdout outcome for a line that holds an item and whose
named items cannot all be the help flag is a violation (the usage text answers the empty line only; a
line holding nothing but `--` counts as empty, bpaf pre-consumes the separator).

NOT decided here (outside symbolic execution): that a *real child process* behaves like run_inner
(OS argv, non-UTF-8 through execve, argv[0] -> application name) and that messages are non-empty.
"""
import z3

from mirsym.engine import parse_callee, Unmodelled, ExecError, BoundExceeded, Panic, Infeasible, Halt
from mirsym.values import *
from mirsym.models import NONE, SOME, rda
from mirsym import fmtmodels as FM
from . import tok
from .corpus import CORPUS

PROP = "C11"
GRAMMARS = ["g1", "c1", "h1", "p1", "fu"]


def models_for(ex_holder):
    models = dict(tok.TOK_MODELS)
    models.update(FM.FMT_MODELS)

    def m_current_args(ex, c, args):
        L = ex.prog.layout
        fl = L.adts["Args"]["fields"]
        d = {"items": Opaque("argv", ()), "name": SOME("app"), "c_rev": NONE}
        return Adt("Args", 0, tuple(d[f] for f in fl))

    def m_construct(ex, c, args):
        # State::construct(args, short_flags, short_args, err): the token layer's state
        items = tok.words_to_items(ex, ex.c11_words)
        return tok.mk_state(ex, items, path=("app",))

    def m_render_console(ex, c, args):
        ex.cut_log.append(("render_console",))
        return "<rendered>"
    models["Args::current_args"] = m_current_args
    models["State::construct"] = m_construct
    models["Doc::render_console"] = m_render_console
    return models


def run_run_job(job, build):
    prog = tok.load_program(build, "none")
    ex = tok.new_exec(prog, models=models_for(None), step_budget=800000)
    g = CORPUS[job["grammar"]]
    shape = tuple(job["shape"])
    out = {"stats": None, "cex": [], "inconclusive": [], "samples": [], "nontrivial": 0, "classes": {}, "obligations": 0, "validate": []}

    def harness(ex):
        parser = ex.call(parse_callee(g.builder), [])
        words = tok.gen_words_sharded(ex, sum(tok.FORM_ITEMS[f] for f in shape), g.decl, shape)
        ex.c11_words = words
        ex.c11_words_keep = words
        return ("returned", ex.call(parse_callee("OptionParser::run"), [parser]))

    def on_path(ex, r):
        out["obligations"] += 1
        if ex.pc:
            out["nontrivial"] += 1
        prints = [n for n in ex.notes if n[0] == "print"]
        words = ex.c11_words_keep
        bad = None
        if r.kind == "ok":
            cls = "returned"
            if prints:
                bad = "a value was returned but something was printed (%r)" % (prints,)
        elif r.kind == "halt":
            code = r.value
            if len(prints) != 1:
                bad = "exit(%r) after %d prints" % (code, len(prints))
            else:
                stream = prints[0][1]
                cls = "%s/exit %r" % (stream, code)
                if not ((stream == "stdout" and code == 0) or (stream == "stderr" and code == 1)):
                    bad = "stream %s with exit status %r" % (stream, code)
                # which class was it?  the render cut tells: render_help / version => stdout
                helpish = any(c[0] == "render_help" for c in ex.cut_log)
                rendered_err = any(c[0] == "render" for c in ex.cut_log)
                if stream == "stdout" and rendered_err and not helpish:
                    bad = "a parse failure was printed to stdout"
                if stream == "stderr" and helpish and not rendered_err:
                    bad = "help was printed to stderr"
                if stream == "stdout" and getattr(g, "usage_fallback", False) and any(w.form != "dd" for w in words):
                    # fu has no version and the default help names: stdout is legitimate only when some word asks for help;
                    # fallback_to_usage answers lines without any item (besides the separator) only
                    nohelp = []
                    for w in words:
                        if w.form in ("short", "short=", "shortv"):
                            nohelp.append(w.name != ord("h"))
                        elif w.form in ("long", "long="):
                            nohelp.append(w.name != ex.intern("help"))
                    cond = z3.And(*nohelp) if nohelp else z3.BoolVal(True)
                    if ex.check(cond) == z3.sat:
                        ex.solver.add(cond)
                        bad = "help / usage on stdout with exit 0 for a non-empty line that does not ask for help (fallback_to_usage applies to the empty line only)"
        else:
            cls = "panic"
            bad = "panic in run(): %r" % (r.info,)
        out["classes"][cls if not bad else "BAD"] = out["classes"].get(cls if not bad else "BAD", 0) + 1
        if bad or len(out["samples"]) < 1 or len(out["validate"]) < 120:
            m = ex.model()
            cz = tok.Concretizer(ex, m)
            argv = cz.argv(words)
            if not bad:
                out["validate"].append((job["grammar"], argv, cls))
            if bad:
                out["cex"].append({"kind": "stream-status", "grammar": job["grammar"], "argv": argv, "why": bad})
            else:
                out["samples"].append({"grammar": job["grammar"], "argv": argv, "outcome": cls})
    try:
        ex.explore(harness, on_path, max_paths=100000)
    except (Unmodelled, BoundExceeded, ExecError) as e:
        out["inconclusive"].append("%s %s [%s]" % (type(e).__name__, e, "/".join(ex.callstack[-3:])))
    out["stats"] = dict(ex.stats)
    out["models_used"] = dict(ex.model_hits)
    out["fn_hits"] = dict(ex.fn_hits)
    # supporting evidence (not the deciding step): the same argv through a REAL process running
    # OptionParser::run() - stream and exit status must match the prediction of the path
    import subprocess
    val = out.pop("validate")
    agree = 0
    for gname, argv, cls in val:
        p = subprocess.run([build["sets"]["none"]["replay"], "--run", gname] + [a.encode("utf-8", "surrogateescape") for a in argv],
                           stdout=subprocess.PIPE, stderr=subprocess.PIPE, timeout=60)
        if p.stdout.startswith(b"VALUE\t"):
            got = "returned"
        elif p.stdout and not p.stderr:
            got = "stdout/exit %d" % p.returncode
        elif p.stderr and not p.stdout:
            got = "stderr/exit %d" % p.returncode
        else:
            got = "mixed stdout=%r stderr=%r rc=%d" % (p.stdout[:80], p.stderr[:80], p.returncode)
        if got == cls:
            agree += 1
        else:
            out["inconclusive"].append("REAL-PROCESS-MISMATCH %s argv=%r predicted %s, process %s" % (gname, argv, cls, got))
    out["validated"] = len(val)
    out["validated_agree"] = agree
    return out


def path_file_name(ex, bs):
    """std::path::Path::file_name on unix, over symbolic bytes (forks): last normal component, None if
    the path ends in `..` or has no normal component"""
    def is_(b, c):
        return b == c if isinstance(b, int) else ex.branch(b == c, "path")
    comps = []
    cur = []
    for b in bs:
        if is_(b, 0x2F):
            comps.append(cur)
            cur = []
        else:
            cur.append(b)
    comps.append(cur)
    norm = []
    for c in comps:
        if not c:
            continue
        if len(c) == 1 and is_(c[0], 0x2E):
            continue
        norm.append(c)
    if not norm:
        return None
    last = norm[-1]
    if len(last) == 2 and is_(last[0], 0x2E) and is_(last[1], 0x2E):
        return None
    return last


def run_argv0_job(job, build):
    """Args::current_args from MIR: the application name is the file name of argv[0]"""
    from mirsym import textmodels as TM
    from mirsym.models import OK
    prog = tok.load_program(build, "none")
    models = dict(TM.TEXT_MODELS)
    models.update(FM.FMT_MODELS)
    from mirsym.engine import Exec
    ex = Exec(prog, models, step_budget=200000)
    TM.install_hooks(ex)
    n = job["len"]
    out = {"stats": None, "cex": [], "inconclusive": [], "samples": [], "nontrivial": 0, "classes": {}, "obligations": 0}
    L = prog.layout

    def m_args_os(ex_, c, args):
        return PyIter("vec_into", Seq((BStr(tuple(ex_.argv0)), BStr(tuple(b"x")))), 0)

    def m_file_name(ex_, c, args):
        v = rda(args[0])
        r = path_file_name(ex_, list(TM.to_bstr(v).b))
        return NONE if r is None else SOME(BStr(tuple(r)))

    def m_file_stem(ex_, c, args):
        v = rda(args[0])
        r = path_file_name(ex_, list(TM.to_bstr(v).b))
        if r is None:
            return NONE
        # before the last `.`, unless the name starts with its only dot
        dots = [i for i, b in enumerate(r) if (b == 0x2E if isinstance(b, int) else ex_.branch(b == 0x2E, "stem"))]
        if not dots or dots[-1] == 0:
            return SOME(BStr(tuple(r)))
        return SOME(BStr(tuple(r[:dots[-1]])))
    ex.models["env::args_os"] = m_args_os
    ex.models["args_os"] = m_args_os
    ex.models["Path::file_name"] = m_file_name
    ex.models["PathBuf::file_name"] = m_file_name
    ex.models["Path::file_stem"] = m_file_stem
    ex.models["PathBuf::file_stem"] = m_file_stem

    def harness(ex):
        bs = [ex.fresh("p", 8) for _ in range(n)]
        for b in bs:
            ex.assume(z3.Or(*[b == a for a in (0x2F, 0x2E, 0x61, 0x62)]))
        ex.argv0 = bs
        args = ex.call(parse_callee("Args::current_args"), [])
        fl = L.adts["Args"]["fields"]
        return (bs, args.fields[fl.index("name")])

    def on_path(ex, r):
        out["obligations"] += 1
        if ex.pc:
            out["nontrivial"] += 1
        if r.kind != "ok":
            out["cex"].append({"kind": "current_args-panics", "why": str(r.info), "argv": None, "grammar": None})
            return
        bs, name = r.value

        def leaf(e, want):
            bad = None
            if (want is None) != (name.var == 0):
                bad = "name presence"
            elif want is not None:
                got = list(TM.to_bstr(rda(name.fields[0])).b)
                if len(got) != len(want) or any((x is not y) and not (isinstance(x, int) and isinstance(y, int) and x == y) and (e.prove(x == y) is not None) for x, y in zip(got, want)):
                    bad = "name differs from the file name of argv[0]"
            if bad:
                m = e.model()
                p = bytes(b if isinstance(b, int) else m.eval(b, model_completion=True).as_long() for b in bs)
                out["cex"].append({"kind": "program-name", "why": "%s: argv[0] = %r" % (bad, p.decode()), "argv": [p.decode()], "grammar": "g1", "argv0": p.decode()})
        ex.sub_explore(lambda e: path_file_name(e, bs), leaf)
        if not out["samples"]:
            m = ex.model()
            p = bytes(b if isinstance(b, int) else m.eval(b, model_completion=True).as_long() for b in bs)
            out["samples"].append({"argv0": p.decode(), "name": "Some" if name.var == 1 else "None"})
    try:
        ex.explore(harness, on_path)
    except (Unmodelled, BoundExceeded, ExecError) as e:
        out["inconclusive"].append("%s %s [%s]" % (type(e).__name__, e, "/".join(ex.callstack[-3:])))
    out["stats"] = dict(ex.stats)
    out["models_used"] = dict(ex.model_hits)
    out["fn_hits"] = dict(ex.fn_hits)
    # confirm through a real process: the usage line of --help starts with the program name
    import subprocess, os, tempfile, shutil
    for c in [c for c in out["cex"] if c["kind"] == "program-name"]:
        a0 = c["argv0"]
        base = a0.rstrip("/").split("/")[-1]
        p = subprocess.run(["bash", "-c", 'exec -a "$0" "$1" --help', a0, build["sets"]["none"]["replay"]],
                           env=dict(os.environ, VHARNESS_RUN="g1"), stdout=subprocess.PIPE, stderr=subprocess.PIPE, timeout=60)
        first = p.stdout.decode("utf-8", "replace").split("\n")[0]
        c["native"] = first
        c["reproduced"] = ("Usage: " + base + " ") not in first + " "
    return out


def run_print_job(job, build):
    """print_message against the prediction of run_inner (unwrap_stdout / unwrap_stderr): for every
    ParseFailure variant (the `full` flag of Stdout symbolic, the width symbolic) the document is rendered
    with the same `full` argument by both, to the stream of its class, help/errors with one trailing
    newline, completion text verbatim.  Doc::render_console is cut and records its arguments."""
    import z3
    from mirsym.models import val_eq
    prog = tok.load_program(build, "none")
    models = dict(tok.TOK_MODELS)
    models.update(FM.FMT_MODELS)

    def m_render_console(ex, c, args):
        ex.cut_log.append(("render_console", rda(args[0]), args[1], args[3]))
        return "<rendered>"
    models["Doc::render_console"] = m_render_console
    ex = tok.new_exec(prog, models=models, step_budget=400000)
    out = {"stats": None, "cex": [], "inconclusive": [], "samples": [], "nontrivial": 0, "classes": {}, "obligations": 0}
    L = prog.layout
    vn = job["variant"]

    def harness(ex):
        vi = L.variant_index("ParseFailure", vn)
        full = ex.fresh("full", "bool")
        width = ex.fresh("width", 64)
        doc = Opaque("doc", ("d",))
        if vn == "Stdout":
            pf = Adt("ParseFailure", vi, (doc, full))
        elif vn == "Stderr":
            pf = Adt("ParseFailure", vi, (doc,))
        else:
            pf = Adt("ParseFailure", vi, ("COMPLETION-TEXT",))
        n0 = len(ex.cut_log)
        ex.call(parse_callee("ParseFailure::print_message"), [Ref(Cell(pf, "pf"), ()), width])
        printed = [c for c in ex.cut_log[n0:] if c[0] == "render_console"]
        prints = [n for n in ex.notes if n[0] == "print"]
        n1 = len(ex.cut_log)
        text = ex.call(parse_callee("ParseFailure::unwrap_stderr" if vn == "Stderr" else "ParseFailure::unwrap_stdout"), [pf])
        predicted = [c for c in ex.cut_log[n1:] if c[0] == "render_console"]
        return (full, width, printed, prints, predicted, text)

    def on_path(ex, r):
        out["obligations"] += 1
        if ex.pc:
            out["nontrivial"] += 1
        if r.kind != "ok":
            out["cex"].append({"kind": "print-message", "why": "ParseFailure::%s: %r" % (vn, r.info), "argv": None, "grammar": None})
            return
        full, width, printed, prints, predicted, text = r.value
        bad = None
        want_stream = "stderr" if vn == "Stderr" else "stdout"
        if len(prints) != 1 or prints[0][1] != want_stream:
            bad = "printed %r, expected one print to %s" % ([p[1] for p in prints], want_stream)
        elif vn == "Completion":
            if printed or predicted:
                bad = "completion text is rendered instead of being passed through"
            elif rda(text) != "COMPLETION-TEXT" or "COMPLETION-TEXT" not in repr(prints[0]):
                bad = "completion text differs between print_message and unwrap_stdout"
        elif len(printed) != 1 or len(predicted) != 1:
            bad = "render_console called %d / %d times" % (len(printed), len(predicted))
        else:
            eq = val_eq(ex, printed[0][2], predicted[0][2])
            if eq is False or (eq is not True and ex.prove(eq) is not None):
                bad = "print_message renders with full=%r, run_inner's text (unwrap_%s) with full=%r" % (printed[0][2], want_stream, predicted[0][2])
            wq = val_eq(ex, printed[0][3], width)
            if not bad and (wq is False or (wq is not True and ex.prove(wq) is not None)):
                bad = "print_message ignores the requested width"
        if bad:
            out["cex"].append({"kind": "print-message", "why": "ParseFailure::%s: %s" % (vn, bad), "argv": None, "grammar": None})
        else:
            out["samples"].append({"variant": vn, "stream": want_stream, "print": repr(prints[0])[:200]})
    try:
        ex.explore(harness, on_path)
    except (Unmodelled, BoundExceeded, ExecError) as e:
        out["inconclusive"].append("%s %s [%s]" % (type(e).__name__, e, "/".join(getattr(e, "stack", None) or ex.callstack[-3:])))
    out["stats"] = dict(ex.stats)
    out["models_used"] = dict(ex.model_hits)
    out["fn_hits"] = dict(ex.fn_hits)
    return out


def run_exit_code_job(job, build):
    prog = tok.load_program(build, "none")
    ex = tok.new_exec(prog)
    out = {"stats": None, "cex": [], "inconclusive": [], "samples": [], "nontrivial": 3, "classes": {}, "obligations": 0}
    L = prog.layout
    want = {"Stdout": 0, "Completion": 0, "Stderr": 1}

    def harness(ex):
        res = {}
        for i, (vn, fl) in enumerate(L.adts["ParseFailure"]["variants"]):
            payload = tuple(Opaque("doc", (j,)) if j == 0 else False for j in range(len(fl)))
            res[vn] = ex.call(parse_callee("ParseFailure::exit_code"), [Adt("ParseFailure", i, payload)])
        return res

    def on_path(ex, r):
        if r.kind != "ok":
            out["cex"].append({"kind": "exit-code-panics", "why": str(r.info), "argv": None, "grammar": None})
            return
        for vn, code in r.value.items():
            out["obligations"] += 1
            if code != want.get(vn):
                out["cex"].append({"kind": "exit-code", "why": "ParseFailure::%s => exit code %r, expected %r" % (vn, code, want.get(vn)), "argv": None, "grammar": None})
        out["samples"].append({"exit_codes": {k: int(v) for k, v in r.value.items()}})
    try:
        ex.explore(harness, on_path)
    except (Unmodelled, BoundExceeded, ExecError) as e:
        out["inconclusive"].append("%s %s" % (type(e).__name__, e))
    out["stats"] = dict(ex.stats)
    out["models_used"] = dict(ex.model_hits)
    out["fn_hits"] = dict(ex.fn_hits)
    return out


def make_jobs(tier, seed, build):
    jobs = [{"id": "exit_code", "kind": "exit_code"}]
    for vn in ("Stdout", "Stderr", "Completion"):
        jobs.append({"id": "print:%s" % vn, "kind": "print", "variant": vn})
    for n in range(0, (4 if tier == "quick" else 5) + 1):
        jobs.append({"id": "argv0:%d" % n, "kind": "argv0", "len": n})
    nmax = 3 if tier == "quick" else 4
    for gname in GRAMMARS:
        g = CORPUS[gname]
        for shape in tok.all_shapes_by_words(nmax, g.decl, full_upto=3):
            jobs.append({"id": "run:%s:%s" % (gname, ",".join(shape)), "kind": "run", "grammar": gname, "shape": shape})
    return jobs


def run_job(job, build):
    if job["kind"] == "exit_code":
        return run_exit_code_job(job, build)
    if job["kind"] == "print":
        return run_print_job(job, build)
    if job["kind"] == "argv0":
        return run_argv0_job(job, build)
    return run_run_job(job, build)


def finish(results, jobs, build, out, tier, seed, wall):
    from . import framework as fw
    st = fw.merge_stats(results)
    samples = []
    for r in results:
        if r.get("error"):
            out.inconc("job %s crashed: %s" % (r["job"], r["error"]))
        for w in r.get("inconclusive", []):
            out.inconc("%s: %s" % (r["job"], w))
        for s in r.get("samples", [])[:1]:
            if len(samples) < 10:
                samples.append(s)
        for c in r.get("cex", []):
            if c["kind"] == "program-name" and not c.get("reproduced"):
                out.inconc("NONREPRO %s (real process prints %r)" % (c["why"], c.get("native")))
                continue
            out.violation("%s:%s:%s" % (c["kind"], c.get("grammar"), " ".join(c.get("argv") or [])),
                          "%s on grammar %s argv=%r: %s" % (c["kind"], c.get("grammar"), c.get("argv"), c["why"]), c)
    nmax = 3 if tier == "quick" else 4
    cov = {
        "evaluations": st["queries"] + sum(r.get("obligations", 0) for r in results),
        "distinct_nontrivial": sum(r.get("nontrivial", 0) for r in results),
        "rule": "one case = one feasible path of OptionParser::run over a symbolic argv (non-trivial: the path condition constrains an item)",
        "samples": samples,
        "states": max(st["paths"], 1),
        "transitions": max(st["decisions"], 1),
        "traces_validated_against_impl": sum(r.get("validated_agree", 0) for r in results),
        "real_process_validation": {"cases": sum(r.get("validated", 0) for r in results), "agree": sum(r.get("validated_agree", 0) for r in results)},
        "exhaustive": not out.inconclusive,
        "paths": st["paths"],
        "queries": {"total": st["queries"], "sat": st["sat"], "unsat": st["unsat"], "unknown": st["unknown"]},
        "solver_time_s": st["solver_s"],
        "outcome_classes": fw.merge_counts(results, "classes"),
        "bounds": {"largest_size": (tok.REDUCED_NOTE if tier != "quick" else "all forms"), "argv_words": "0..=%d" % nmax, "grammars": GRAMMARS},
        "jobs": len(jobs),
        "functions_encoded": sorted(fw.merge_counts(results, "fn_hits")),
        "models_used": fw.merge_counts(results, "models_used"),
        "cuts": {"State::construct": "replaced by the token-layer state (obligation of C02/C09)", "Doc::render_console": "opaque text",
                 "Message::render / render_help": "as in the token layer"},
        "repo_src_hash": build.get("repo_hash"),
    }
    assumptions = [
        "in-process clause only: the equality of a real child process with run_inner (OS argv, argv[0], non-UTF-8 through execve) is outside symbolic execution and NOT claimed",
        "message text (non-emptiness) is not decided: rendering is cut",
        "process::exit and the print macros are models that record their arguments",
    ]
    return {"tier": tier, "seed": seed, "level": "model_checking", "coverage": cov, "assumptions": assumptions}
