"""C03 - order of named options is irrelevant (relational check, no reference semantics needed).

One path = one symbolic argv A and the argv B obtained from A by transposing two neighbouring
occurrence blocks (a declared flag, a declared argument together with its value, or a plain
positional word; at least one of the two is a named occurrence, the two do not feed the same
field, neither is a subcommand name or the `--` separator, both stand left of `--`).
run_subparser is executed from MIR on both and the solver must show class and value equal.
Neighbour transpositions generate every permutation the property allows.
Vectors containing an argument name that is not followed by a value word have no decomposition
into whole occurrences (moving a word next to the dangling name would turn it into its value)
and are skipped.
"""
import z3

from mirsym.engine import parse_callee, Unmodelled, ExecError, BoundExceeded, Panic, Infeasible
from mirsym.values import *
from mirsym.models import val_eq
from spec import grammar as G
from . import tok
from .tokdiff import help_names, assume_not_named, fmt_debug, spec_env
from .framework import Replayer
from .corpus import CORPUS

PROP = "C03"
GRAMMARS = ["g1", "g2", "g3", "p1", "p2", "p3", "c1", "v1", "o2", "e1x"]
GRAMMARS = ["g1", "g2", "g3", "g4", "p1", "p2", "p3", "c1", "v1", "o2", "x1"]


def all_named(level, acc):
    for f in level.fields:
        if isinstance(f, G.Named):
            acc.append(f)
        elif isinstance(f, G.Group):
            acc.extend(f.members)
        elif isinstance(f, G.Cmds):
            for c in f.cmds:
                all_named(c.level, acc)


class Malformed(Exception):
    """an argument name without its value: the vector has no decomposition into whole occurrences"""


def block_at(ex, env, g, words, k, named, cmd_names):
    """classify the occurrence block starting at word k: returns (length in words, field id or None)
    or raises Infeasible when no permutable block starts here"""
    w = words[k]
    if w.form in ("dd", "pos"):
        raise Infeasible()
    if w.form == "word":
        # a plain positional word (not a subcommand name)
        for c in cmd_names:
            if ex.branch(w.val == ex.intern(c), "is-cmd"):
                raise Infeasible()
        return 1, None
    it = G.Item("short" if w.form.startswith("short") else "long", w.name, w.form in ("short=", "shortv", "long="))
    for fi, f in enumerate(named):
        if G.name_match(ex, env, f, it):
            is_flag = f.kind != "arg"
            if w.form in ("short=", "shortv", "long="):
                if is_flag:
                    raise Infeasible()  # `--flag=value` is not a whole occurrence of anything
                return 1, fi
            if is_flag:
                return 1, fi
            # argument name as a word of its own: the next word is its value
            if f.adjacent:
                raise Infeasible()
            if k + 1 < len(words) and words[k + 1].form == "word":
                return 2, fi
            raise Malformed()
    raise Infeasible()  # undeclared name: not an occurrence


def run_job(job, build):
    prog = tok.load_program(build, "none")
    ex = tok.new_exec(prog, step_budget=800000)
    g = CORPUS[job["grammar"]]
    shape = tuple(job["shape"])
    k = job["k"]
    layout = prog.layout
    out = {"stats": None, "cex": [], "inconclusive": [], "samples": [], "nontrivial": 0, "classes": {}, "pairs": 0}
    named = []
    all_named(g.level, named)

    def harness(ex):
        k_ = None
        parser = ex.call(parse_callee(g.builder), [])
        words = tok.gen_words_sharded(ex, sum(tok.FORM_ITEMS[f] for f in shape), g.decl, shape)
        (hs, hl), (vs, vl), has_version = help_names(ex, parser)
        assume_not_named(ex, words, hs, hl)
        env = spec_env(ex)
        # decompose the words left of `--` into blocks, left to right (a word following an argument
        # name is that argument's value, never a block of its own)
        blocks = []  # (start, len, field or None, swappable)
        i = 0
        left = len(words)
        for j, w in enumerate(words):
            if w.form == "dd":
                left = j
                break
        while i < left:
            try:
                ln, fld = block_at(ex, env, g, words, i, named, g.cmd_names)
                blocks.append((i, ln, fld, True))
            except Malformed:
                raise Infeasible()
            except Infeasible:
                ln = 1
                blocks.append((i, 1, None, False))
            i += ln
        if k + 1 >= len(blocks):
            raise Infeasible()
        (sa, la, fa, oka), (sb, lb, fb, okb) = blocks[k], blocks[k + 1]
        if not (oka and okb):
            raise Infeasible()
        k_ = sa
        if fa is None and fb is None:
            raise Infeasible()  # two positionals keep their order
        if fa is not None and fa == fb:
            raise Infeasible()  # occurrences feeding the same field keep their order
        words_b = words[:k_] + words[k_ + la:k_ + la + lb] + words[k_:k_ + la] + words[k_ + la + lb:]
        res = []
        for ws in (words, words_b):
            items = tok.words_to_items(ex, ws)
            st = Cell(tok.mk_state(ex, items), "state")
            pc = Cell(parser, "parser")
            res.append(ex.call(parse_callee("OptionParser::run_subparser"), [Ref(pc, ()), Ref(st, ())]))
        return (words, words_b, res[0], res[1])

    def on_path(ex, r):
        if r.kind != "ok":
            out["inconclusive"].append("panic/halt on a C03 path: %r (C04 reports panics)" % (r.info,))
            return
        wa, wb, ra, rb = r.value
        out["pairs"] += 1
        if ex.pc:
            out["nontrivial"] += 1
        ca, pa = tok.classify(ex, ra)
        cb, pb = tok.classify(ex, rb)
        out["classes"][ca] = out["classes"].get(ca, 0) + 1
        bad = None
        if ca != cb:
            bad = "class differs"
        elif ca == "ok":
            eq = val_eq(ex, pa, pb)
            m = ex.prove(eq)
            if m is not None:
                ex.solver.add(z3.Not(eq))
                bad = "value differs"
        if len(out["samples"]) < 2 or bad:
            m = ex.model()
            cz = tok.Concretizer(ex, m)
            a1, a2 = cz.argv(wa), cz.argv(wb)
            va = fmt_debug(cz, pa, layout) if ca == "ok" else None
            vb = fmt_debug(cz, pb, layout) if cb == "ok" else None
            if bad:
                out["cex"].append({"kind": "order-matters", "grammar": job["grammar"], "shape": list(shape), "argv": a1, "argv_permuted": a2,
                                   "env": {}, "predicted": [[ca, va], [cb, vb]], "expected": "equal outcomes", "why": bad})
            elif len(out["samples"]) < 2:
                out["samples"].append({"grammar": job["grammar"], "argv": a1, "argv_permuted": a2, "class": ca, "value": va})

    try:
        ex.explore(harness, on_path, max_paths=200000)
    except Unmodelled as e:
        out["inconclusive"].append("UNMODELLED %s" % e)
    except BoundExceeded as e:
        out["inconclusive"].append("BOUND %s" % e)
    except ExecError as e:
        out["inconclusive"].append("EXEC-ERROR %s" % e)
    out["stats"] = dict(ex.stats)
    out["models_used"] = dict(ex.model_hits)
    out["fn_hits"] = dict(ex.fn_hits)
    if out["cex"]:
        rp = Replayer(build["sets"]["none"]["replay"])
        cases = []
        for c in out["cex"]:
            cases.append((c["grammar"], c["argv"], {}))
            cases.append((c["grammar"], c["argv_permuted"], {}))
        got = rp.run(cases)
        for i, c in enumerate(out["cex"]):
            n1, n2 = got[2 * i], got[2 * i + 1]
            c["native"] = [list(n1), list(n2)]
            same = n1[0] == n2[0] and (n1[0] != "ok" or n1[1] == n2[1])
            c["reproduced"] = not same
    return out


def make_jobs(tier, seed, build):
    jobs = []
    nmax = 3 if tier == "quick" else 4
    for gname in GRAMMARS:
        g = CORPUS[gname]
        for shape in tok.all_shapes_by_words(nmax, g.decl, full_upto=3):
            # transposition of blocks k, k+1; it needs at least two words left of `--`
            left = shape.index("dd") if "dd" in shape else len(shape)
            for k in range(0, left - 1):
                jobs.append({"id": "%s:%d:%s" % (gname, k, ",".join(shape)), "grammar": gname, "shape": shape, "k": k})
    return jobs


def finish(results, jobs, build, out, tier, seed, wall):
    from . import framework as fw
    st = fw.merge_stats(results)
    samples = []
    for r in results:
        if r.get("error"):
            out.inconc("job %s crashed: %s" % (r["job"], r["error"]))
        for w in r.get("inconclusive", []):
            out.inconc("%s: %s" % (r["job"], w))
        for s in r.get("samples", [])[:1]:
            if len(samples) < 10:
                samples.append(s)
        for c in r.get("cex", []):
            key = "%s:%s:%s" % (c["grammar"], " ".join(c["argv"]), " ".join(c["argv_permuted"]))
            what = "order matters on grammar %s: %r => %s but %r => %s" % (c["grammar"], c["argv"], c["native"][0], c["argv_permuted"], c["native"][1])
            if c.get("reproduced"):
                out.violation(key, what, c)
            else:
                out.inconc("NONREPRO %s predicted %s native %s" % (key, c["predicted"], c["native"]))
    pairs = sum(r.get("pairs", 0) for r in results)
    nmax = 3 if tier == "quick" else 4
    cov = {
        "evaluations": st["queries"],
        "distinct_nontrivial": sum(r.get("nontrivial", 0) for r in results),
        "rule": "one case = one feasible joint path of run_subparser on a symbolic argv and on its neighbour-transposed variant; both executions share all symbols",
        "samples": samples,
        "states": max(pairs, 1),
        "transitions": max(st["decisions"], 1),
        "traces_validated_against_impl": 0,
        "exhaustive": not out.inconclusive,
        "pairs": pairs,
        "queries": {"total": st["queries"], "sat": st["sat"], "unsat": st["unsat"], "unknown": st["unknown"]},
        "solver_time_s": st["solver_s"],
        "mir_statements_executed": st["steps"],
        "outcome_classes": fw.merge_counts(results, "classes"),
        "bounds": {"largest_size": (tok.REDUCED_NOTE if tier != "quick" else "all forms"), "argv_words": "2..=%d (up to twice as many items)" % nmax, "grammars": GRAMMARS, "transpositions": "every neighbouring pair of occurrence blocks left of `--`"},
        "jobs": len(jobs),
        "functions_encoded": sorted(fw.merge_counts(results, "fn_hits")),
        "models_used": fw.merge_counts(results, "models_used"),
        "cuts": tok.CUTS,
        "repo_src_hash": build.get("repo_hash"),
    }
    assumptions = [
        "occurrence blocks are recognised through the declared names listed in props/corpus.py",
        "no item is the help flag; token-layer assumptions of C01 apply (tokenizer image, std models, u32 values)",
        "general permutations are reached through neighbour transpositions (each transposition is an allowed permutation of the intermediate vector)",
    ]
    return {"tier": tier, "seed": seed, "level": "model_checking", "coverage": cov, "assumptions": assumptions}
