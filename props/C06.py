"""C06 - absent is not invalid: defaults never mask bad values.

Part 1 (this file, differential): the corpus grammars with guards / parse steps / groups under
every wrapper, against spec/grammar.py; on top of the outcome class the *message* observed at the
render cut must be ParseFailed / GuardFailed carrying the offending item when a present value is
invalid.
Part 2 (props/C06_wrappers.py): wrapper contracts with a nondeterministic inner parser.
"""
import z3
from mirsym.models import val_eq
from spec import grammar as G
from . import tok
from . import C01
from .tokdiff import run_tok_job, finish_tok, spec_env
from .corpus import CORPUS, C06_GRAMMARS

PROP = "C06"


class Oracle(C01.Oracle):
    assumptions = C01.Oracle.assumptions + [
        "guards and parse steps of the corpus are the predicate value >= 10 (executed from the harness MIR; the spec states it independently)",
    ]

    def assume(self, ex, g, words, parser):
        C01.Oracle.assume(self, ex, g, words, parser)
        if g.name == "e1":
            # the repeated env-backed argument on the line is C18's known finding; not re-reported here
            from .tokdiff import assume_not_named
            assume_not_named(ex, words, [ord("d")], ["delta"])

    def judge(self, ex, g, words, cls, payload, state, report, out):
        C01.Oracle.judge(self, ex, g, words, cls, payload, state, report, out)
        # message clause: a failure whose cause is a present-but-invalid value carries the right message
        if cls != "stderr":
            return
        name, msg = tok.message_name(ex, payload)
        out.setdefault("messages", {})
        out["messages"][name] = out["messages"].get(name, 0) + 1
        items = G.items_of_words(words)
        env = spec_env(ex)

        def lenient(e):
            env.lenient = []
            r = G.run_spec(e, env, g.level, items)
            return r, list(env.lenient)

        def leaf(ex2, rr):
            sres, bad = rr
            if sres[0] != "ok" or not bad:
                return
            # a sentence except for invalid value(s): the message names one of them
            out["message_obligations"] = out.get("message_obligations", 0) + 1
            okidx = [b[0] for b in bad if b[0] is not None]
            kinds = set(b[1] for b in bad)
            want = {"conversion": "ParseFailed", "guard": "GuardFailed", "parse": "ParseFailed"}
            frag = {"conversion": ["couldn't parse"], "guard": ["must be big"], "parse": ["too small"]}
            extra = {"native_text_none_of": sum((frag[k] for k in kinds), [])}
            if name not in [want[k] for k in kinds]:
                report("invalid-value-message", words, (cls, payload), ["stderr", "message %s for %s" % (name, sorted(kinds))], extra)
                return
            ix = msg.fields[0]
            good = [b for b in bad if want[b[1]] == name]
            if ix.var == 1:
                cond = z3.Or(*[ix.fields[0] == b[0] for b in good if b[0] is not None]) if any(b[0] is not None for b in good) else False
                if not isinstance(ix.fields[0], int):
                    m = ex2.prove(cond)
                    bad_ix = m is not None
                else:
                    bad_ix = ix.fields[0] not in [b[0] for b in good]
                if bad_ix:
                    report("invalid-value-index", words, (cls, payload), ["stderr", "message %s points at item %r, offending items %r" % (name, ix, [b[0] for b in good])])
            elif all(b[0] is not None for b in good):
                # (a failure without an item index is right when one of the offending values comes from a variable)
                report("invalid-value-index", words, (cls, payload), ["stderr", "message %s has no item index, offending items %r" % (name, [b[0] for b in good])])
        ex.sub_explore(lenient, leaf)


def make_jobs(tier, seed, build):
    from . import C05
    jobs = C01.make_jobs(tier, seed, build, C06_GRAMMARS)
    for j in jobs:
        j["kind"] = "corpus"
    # env-backed items: "absent" also means "variable unset"
    g = CORPUS["e1"]
    for n in range(0, (1 if tier == "quick" else 2) + 1):
        for shape in tok.all_shapes(n, g.decl):
            jobs.append({"id": "e1:%s" % ",".join(shape), "grammar": "e1", "shape": shape, "fs": "none", "kind": "corpus"})
    # wrapper contracts with a nondeterministic inner parser (shared with C05)
    for j in C05.make_jobs(tier, seed, build):
        if j["kind"] == "wrap":
            jobs.append(j)
    return jobs


def run_job(job, build):
    if job["kind"] == "wrap":
        from . import C05
        return C05.run_wrap_job(job, build)
    return run_tok_job(job, build, CORPUS, Oracle())


def finish(results, jobs, build, out, tier, seed, wall):
    nmax = 3 if tier == "quick" else 4
    byid = {j["id"]: j for j in jobs}
    wraps = [r for r in results if byid.get(r["job"], {}).get("kind") == "wrap"]
    results = [r for r in results if byid.get(r["job"], {}).get("kind") != "wrap"]
    for r in wraps:
        if r.get("error"):
            out.inconc("job %s crashed: %s" % (r["job"], r["error"]))
        for w in r.get("inconclusive", []):
            out.inconc("%s: %s" % (r["job"], w))
        for c in r.get("cex", []):
            out.violation("%s:%s:%s" % (c["kind"], ",".join(c["shape"]), c["info"][:80]), "%s on shape %s: %s" % (c["kind"], c["shape"], c["info"]), c)
    jobs = [j for j in jobs if j.get("kind") != "wrap"]
    ev = finish_tok(PROP, results, jobs, build, out, tier, seed, wall, Oracle(), CORPUS,
                    {"argv_words": "0..=%d (up to twice as many items); e1: items 0..=%d" % (nmax, 1 if tier == "quick" else 2), "grammars": len(C06_GRAMMARS) + 1, "step_budget_per_path": 600000})
    from .framework import merge_counts
    ev["coverage"]["messages_at_render_cut"] = merge_counts(results, "messages")
    ev["coverage"]["message_obligations"] = sum(r.get("message_obligations", 0) for r in results)
    from . import framework as fw
    ws = fw.merge_stats(wraps)
    ev["coverage"]["wrapper_contract_jobs"] = len(wraps)
    ev["coverage"]["wrapper_contract_paths"] = ws["paths"]
    ev["coverage"]["wrapper_contract_obligations"] = sum(r.get("obligations", 0) for r in wraps)
    ev["coverage"]["evaluations"] += ws["queries"]
    ev["coverage"]["states"] += ws["paths"]
    ev["assumptions"].append("wrapper contracts: the inner parser is a nondeterministic model (any subset of present in-scope items consumed, Ok or any Message variant with typed payloads); defaulting is allowed only for (Missing and nothing consumed) or (catchable non-Missing) or catch")
    return ev
