"""./check <Cxx> [--tier quick|thorough] [--replay file] [--grammar g] [--procs n]"""
import argparse
import importlib
import json
import os
import sys
import time

from . import framework as fw


def main():
    ap = argparse.ArgumentParser()
    ap.add_argument("prop")
    ap.add_argument("--tier", default=os.environ.get("VERIF_TIER", "quick"))
    ap.add_argument("--replay")
    ap.add_argument("--grammar")
    ap.add_argument("--procs", type=int)
    ap.add_argument("--max-jobs", type=int)
    a = ap.parse_args()
    seed = int(os.environ.get("VERIF_SEED", "0"))
    t0 = time.time()
    mod = importlib.import_module("props." + a.prop)
    fsets = getattr(mod, "FEATURE_SETS", ("none",))
    try:
        build = fw.get_build(fsets)
    except Exception as e:  # noqa: BLE001
        print("INCONCLUSIVE: build failed: %s" % str(e)[-3000:])
        fw.write_evidence(a.prop, a.tier, seed, getattr(mod, "LEVEL", "model_checking"),
                          {"evaluations": 0, "distinct_nontrivial": 0, "explanation": "build of /repo failed: checks could not run", "samples": []},
                          ["build failed"], time.time() - t0, 0)
        sys.exit(2)
    if a.replay:
        sys.exit(mod.replay(a.replay, build))
    if hasattr(mod, "prepare"):
        mod.prepare(build)
    jobs = mod.make_jobs(a.tier, seed, build)
    if a.grammar:
        jobs = [j for j in jobs if j.get("grammar") == a.grammar or j.get("kind") == a.grammar or j.get("pair") == a.grammar or j.get("template") == a.grammar]  # dev filter: grammar or job kind
    if a.max_jobs:
        jobs = jobs[:a.max_jobs]
    sys.stderr.write("%s: %d jobs (build %.1fs)\n" % (a.prop, len(jobs), build["timings"]["total"]))
    results = fw.run_jobs(lambda j: mod.run_job(j, build), jobs, a.procs)
    if os.environ.get("VERIF_TIMING"):
        agg = {}
        for r in results:
            k = ":".join(str(r["job"]).split(":")[:2])
            agg[k] = agg.get(k, 0) + r["wall_s"]
        for k, v in sorted(agg.items(), key=lambda kv: -kv[1])[:25]:
            sys.stderr.write("  time %-40s %.1fs\n" % (k, v))
    out = fw.Outcome(a.prop)
    ev = mod.finish(results, jobs, build, out, a.tier, seed, time.time() - t0)
    rc = out.finish()
    ev["violations"] = len(out.violations)
    ev["coverage"]["inconclusive"] = out.inconclusive[:20]
    ev["coverage"]["known_findings_seen"] = [k for k, _ in out.known]
    ev["wall_s"] = round(time.time() - t0, 2)
    fw.write_evidence(a.prop, ev["tier"], ev["seed"], ev["level"], ev["coverage"], ev["assumptions"], ev["wall_s"], ev["violations"])
    print("%s %s: exit %d, %d jobs, %.1fs" % (a.prop, a.tier, rc, len(jobs), time.time() - t0))
    sys.exit(rc)


if __name__ == "__main__":
    main()
