"""C08 - subcommands scope what follows them.

Differential against spec/grammar.py on the subcommand trees (depth <= 2, aliases, optional
command, per-level named items and positionals): entered iff the name/alias is the first item
the level did not claim, success iff the sub-grammar accepts everything to its right, deeper
items left of the name / unknown command / command where none is expected => stderr.
Help after the name describes the subcommand: decided by C10's jobs on the same trees.
"""
from . import C01, tok
from .tokdiff import run_tok_job, finish_tok
from .corpus import CORPUS

PROP = "C08"
GRAMMARS = ["c1", "c2", "c3", "c5", "c7", "c8", "cr"]


class Oracle(C01.Oracle):
    pass


def make_jobs(tier, seed, build):
    jobs = []
    nmax = 3 if tier == "quick" else 4
    for gname in GRAMMARS:
        g = CORPUS[gname]
        for shape in tok.all_shapes_by_words(nmax, g.decl, full_upto=3):
            if len(shape) >= 4 and "word" not in shape:
                continue  # without a plain word no command can be entered: covered by the smaller sizes
            jobs.append({"id": "%s:%s" % (gname, ",".join(shape)), "grammar": gname, "shape": shape, "fs": "none"})
    return jobs


def run_job(job, build):
    return run_tok_job(job, build, CORPUS, Oracle())


def finish(results, jobs, build, out, tier, seed, wall):
    nmax = 3 if tier == "quick" else 4
    return finish_tok(PROP, results, jobs, build, out, tier, seed, wall, Oracle(), CORPUS,
                      {"argv_words": "0..=%d (up to twice as many items; 4 words: shapes with a plain word)" % nmax, "depth": 2, "grammars": len(GRAMMARS)})
