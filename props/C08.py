"""C08 - subcommands scope what follows them.

Differential against spec/grammar.py on the subcommand trees (depth <= 2, aliases, optional
command, per-level named items and positionals): entered iff the name/alias is the first item
the level did not claim, success iff the sub-grammar accepts everything to its right, deeper
items left of the name / unknown command / command where none is expected => stderr.
Help after the name describes the subcommand: decided by C10's jobs on the same trees.
"""
from . import C01, tok
from .tokdiff import run_tok_job, finish_tok
from .corpus import CORPUS

PROP = "C08"
GRAMMARS = ["c1", "c2", "c3"]


class Oracle(C01.Oracle):
    pass


def make_jobs(tier, seed, build):
    jobs = []
    nmax = 4 if tier == "quick" else 5
    for gname in GRAMMARS:
        g = CORPUS[gname]
        for n in range(0, nmax + 1):
            for shape in tok.all_shapes(n, g.decl):
                if n >= 4 and "word" not in shape:
                    continue  # without a plain word no command can be entered: covered by n <= 3
                if n == 5 and shape.count("word") < 2:
                    continue
                jobs.append({"id": "%s:%s" % (gname, ",".join(shape)), "grammar": gname, "shape": shape, "fs": "none"})
    return jobs


def run_job(job, build):
    return run_tok_job(job, build, CORPUS, Oracle())


def finish(results, jobs, build, out, tier, seed, wall):
    nmax = 4 if tier == "quick" else 5
    return finish_tok(PROP, results, jobs, build, out, tier, seed, wall, Oracle(), CORPUS,
                      {"items": "0..=%d (4+: shapes with a plain word)" % nmax, "depth": 2, "grammars": len(GRAMMARS)})
