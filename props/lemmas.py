"""Inductive-step lemmas from an *arbitrary* symbolic consumption state (C05 ledger, C06 wrapper
contracts, C04 termination).  The state is any value satisfying the representation invariant

    item_state.len() == items.len()  /\\  scope.start <= scope.end <= items.len()
    /\\  remaining == #{ i in scope | item_state[i] is present }

(the invariant State::construct establishes and every mutator is shown here to preserve), the
inner parser of a wrapper is a nondeterministic model that may consume any subset of the
present in-scope items and return Ok or any Message variant.
"""
import z3

from mirsym.engine import parse_callee, Unmodelled, ExecError, BoundExceeded, Panic, Infeasible
from mirsym.values import *
from mirsym.models import NONE, SOME, OK, ERR, rd, rda, wr, val_eq
from . import tok

CATCHABLE = {"NoEnv", "ParseSome", "ParseFail", "PureFailed", "Missing", "NonStrictPos"}  # from the docs of Message


def sym_state(ex, shape, decl, with_conflict=True):
    words = tok.gen_words_sharded(ex, sum(tok.FORM_ITEMS[f] for f in shape), decl, shape)
    items = tok.words_to_items(ex, words)
    n = len(items)
    L = ex.prog.layout
    st = []
    present = []
    for i in range(n):
        k = tok.choose_free(ex, 3 if with_conflict else 2, "ist")
        if k == 0:
            st.append(Adt("ItemState", L.variant_index("ItemState", "Unparsed"), ()))
            present.append(True)
        elif k == 1:
            st.append(Adt("ItemState", L.variant_index("ItemState", "Parsed"), ()))
            present.append(False)
        else:
            c = ex.fresh("conf", 64)
            st.append(Adt("ItemState", L.variant_index("ItemState", "Conflict"), (c,)))
            present.append(True)
    lo = ex.fresh("lo", 64)
    hi = ex.fresh("hi", 64)
    ex.assume(z3.And(z3.ULE(lo, hi), z3.ULE(hi, n)))
    rem = z3.BitVecVal(0, 64)
    for i in range(n):
        if present[i]:
            rem = rem + z3.If(z3.And(z3.ULE(lo, i), z3.ULT(i, hi)), z3.BitVecVal(1, 64), z3.BitVecVal(0, 64))
    rem = z3.simplify(rem)
    if tok.choose_free(ex, 2, "cur") == 0:
        cur = NONE
    else:
        cur = SOME(ex.fresh("cur", 64))
    fields = {"items": Seq(tuple(items)), "item_state": Seq(tuple(st)), "remaining": rem, "current": cur,
              "path": Seq(()), "scope": Adt("Range", 0, (lo, hi)), "comp": NONE}
    order = L.adts["State"]["fields"]
    return Adt("State", 0, tuple(fields[f] for f in order)), words, present, (lo, hi)


def fields_of(ex, st):
    order = ex.prog.layout.adts["State"]["fields"]
    return {f: st.fields[i] for i, f in enumerate(order)}


def present_vec(ex, st):
    L = ex.prog.layout
    pi = L.variant_index("ItemState", "Parsed")
    return [x.var != pi for x in fields_of(ex, st)["item_state"].items]


def in_scope(lo, hi, i):
    if isinstance(lo, int) and isinstance(hi, int) and isinstance(i, int):
        return lo <= i < hi
    b = lambda x: z3.BitVecVal(x, 64) if isinstance(x, int) else x
    return z3.And(z3.ULE(b(lo), b(i)), z3.ULT(b(i), b(hi)))


def invariant(ex, st):
    f = fields_of(ex, st)
    n = len(f["items"].items)
    if len(f["item_state"].items) != n:
        return False
    lo, hi = f["scope"].fields
    pres = present_vec(ex, st)
    cnt = z3.BitVecVal(0, 64)
    for i in range(n):
        if pres[i]:
            c = in_scope(lo, hi, i)
            cnt = cnt + (z3.If(c, z3.BitVecVal(1, 64), z3.BitVecVal(0, 64)) if not isinstance(c, bool) else z3.BitVecVal(1 if c else 0, 64))
    rem = f["remaining"]
    rem = rem if not isinstance(rem, int) else z3.BitVecVal(rem, 64)
    b = lambda x: x if not isinstance(x, int) else z3.BitVecVal(x, 64)
    return z3.And(z3.ULE(b(lo), b(hi)), z3.ULE(b(hi), n), rem == cnt)


# ------------------------------------------------------------------------------------------------
# nondeterministic inner parser

def message_variants(ex):
    return [n for n, _ in ex.prog.layout.adts["Message"]["variants"]]


def mk_message(ex, name, tag):
    L = ex.prog.layout
    vi = L.variant_index("Message", name)
    fl = L.adts["Message"]["variants"][vi][1]
    us = lambda: ex.fresh("ndix", 64)
    mv = Adt("Metavar", 0, ("M",))

    def opt_us():
        return NONE if tok.choose_free(ex, 2, "nd-optix") == 0 else SOME(us())
    typed = {
        "NoEnv": lambda: ("VAR",), "ParseSome": lambda: ("some msg",), "ParseFail": lambda: ("fail msg",),
        "PureFailed": lambda: ("pure msg",), "Missing": lambda: (Seq(()),),
        "ParseFailure": lambda: (Adt("ParseFailure", L.variant_index("ParseFailure", "Stderr"), (Opaque("doc", (tag,)),)),),
        "StrictPos": lambda: (us(), mv), "NonStrictPos": lambda: (us(), mv),
        "ParseFailed": lambda: (opt_us(), "conversion msg"), "GuardFailed": lambda: (opt_us(), "guard msg"),
        "NoArgument": lambda: (us(), mv), "Unconsumed": lambda: (us(),), "Ambiguity": lambda: (us(), "ab"),
        "Suggestion": lambda: (us(), Opaque("suggestion", (tag,))), "Conflict": lambda: (us(), us()),
        "Expected": lambda: (Seq(()), opt_us()), "OnlyOnce": lambda: (us(), us()),
    }
    if name in typed:
        payload = typed[name]()
    else:
        payload = tuple(Opaque("payload", (tag, i)) for i in range(len(fl)))
    if len(payload) != len(fl):
        raise ExecError("Message::%s has %d fields, model builds %d" % (name, len(fl), len(payload)))
    return Adt("Message", vi, payload)


REPRESENTATIVE = ["Missing", "ParseFail", "NonStrictPos", "StrictPos", "ParseFailed", "ParseFailure"]


def install_nondet(models, variants=None):
    def m_eval(ex, c, args):
        me = rda(args[0])
        st_ref = args[1]
        pre = rd(st_ref)
        f = fields_of(ex, pre)
        n = len(f["items"].items)
        lo, hi = f["scope"].fields
        pres = present_vec(ex, pre)
        consumed = []
        for i in range(n):
            if not pres[i]:
                continue
            ins = in_scope(lo, hi, i)
            if not ex.branch(ins, "nd-scope"):
                continue
            if tok.choose_free(ex, 2, "nd-consume") == 1:
                ex.call(parse_callee("State::remove"), [st_ref, i])
                consumed.append(i)
        names = variants or message_variants(ex)
        k = tok.choose_free(ex, 1 + len(names), "nd-result")
        call_no = sum(1 for x in ex.notes if x[0] == "inner")
        if k == 0:
            val = ex.fresh("ndval", 32)
            res = OK(val)
            kind = "ok"
        else:
            kind = names[k - 1]
            res = ERR(Adt("Error", 0, (mk_message(ex, kind, call_no),)))
        ex.notes.append(("inner", pre, consumed, kind, res, rd(st_ref)))
        return res
    models["NondetParser as Parser::eval"] = m_eval

    def m_meta(ex, c, args):
        # the shape `adjacent` needs: a group that starts with a required flag
        L = ex.prog.layout
        sl = Adt("ShortLong", L.variant_index("ShortLong", "Short"), (ord("x"),))
        vi = L.variant_index("Item", "Flag")
        fl = L.adts["Item"]["variants"][vi][1]
        d = {"name": sl, "shorts": Seq((ord("x"),)), "env": NONE, "help": NONE}
        item = Adt("Item", vi, tuple(d[f] for f in fl))
        return Adt("Meta", L.variant_index("Meta", "Item"), (item,))
    models["NondetParser as Parser::meta"] = m_meta


NONDET = Adt("NondetParser", 0, ())


# ------------------------------------------------------------------------------------------------
# solver-chosen *deterministic* inner parser: a fixed set S of item indices it claims whenever they
# are present and in scope, and a success rule.  Cheaper than NONDET (one path per choice of S, rule
# and pre-state instead of an independent choice at every evaluation) and closer to real parsers,
# which are functions of the state they are shown.

DET_RULES = ("always", "all-of-S", "took-something", "first-of-S")


def det_parser(ex, n):
    S = tuple(i for i in range(n) if tok.choose_free(ex, 2, "det-claims") == 1)
    rule = DET_RULES[tok.choose_free(ex, len(DET_RULES), "det-rule")]
    return Adt("DetParser", 0, (S, rule))


def install_det(models):
    def m_eval(ex, c, args):
        me = rda(args[0])
        S, rule = me.fields
        st_ref = args[1]
        pre = rd(st_ref)
        f = fields_of(ex, pre)
        lo, hi = f["scope"].fields
        pres = present_vec(ex, pre)
        avail = []
        for i in S:
            if pres[i]:
                ins = in_scope(lo, hi, i)
                if ins is True or (ins is not False and ex.branch(ins, "det-scope")):
                    avail.append(i)
        if rule == "first-of-S":
            # a group anchored at its first member: nothing is taken unless that member is there
            ok = bool(S) and S[0] in avail
            take = avail if ok else []
        else:
            take = avail
            ok = {"always": True, "all-of-S": len(avail) == len(S), "took-something": bool(avail)}[rule]
        for i in take:
            ex.call(parse_callee("State::remove"), [st_ref, i])
        call_no = sum(1 for x in ex.notes if x[0] == "inner")
        res = OK(ex.fresh("detval", 32)) if ok else ERR(Adt("Error", 0, (mk_message(ex, "Missing", call_no),)))
        ex.notes.append(("inner", pre, list(take), "ok" if ok else "Missing", res, rd(st_ref)))
        return res
    models["DetParser as Parser::eval"] = m_eval

    def m_meta(ex, c, args):
        L = ex.prog.layout
        sl = Adt("ShortLong", L.variant_index("ShortLong", "Short"), (ord("x"),))
        vi = L.variant_index("Item", "Flag")
        fl = L.adts["Item"]["variants"][vi][1]
        d = {"name": sl, "shorts": Seq((ord("x"),)), "env": NONE, "help": NONE}
        item = Adt("Item", vi, tuple(d[f] for f in fl))
        return Adt("Meta", L.variant_index("Meta", "Item"), (item,))
    models["DetParser as Parser::meta"] = m_meta


def ledger_equal(ex, a, b):
    """item_state / remaining / scope equal (z3 Bool or python bool)"""
    fa, fb = fields_of(ex, a), fields_of(ex, b)
    return val_eq(ex, (fa["item_state"], fa["remaining"], fa["scope"]), (fb["item_state"], fb["remaining"], fb["scope"]))


def msg_name(ex, err):
    """Result::Err(Error(Message)) -> variant name"""
    return message_variants(ex)[err.fields[0].fields[0].var]
