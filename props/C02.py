"""C02 - equivalent spellings mean the same thing; values arrive byte-exact.

Text layer (strings = concrete-length sequences of symbolic bytes, props executed from MIR):
  split:<L>      arg::split_os_argument on every byte string of length L vs the reference
                 tokenization `ref_split` written from the documentation / C02's statement
  construct:...  State::construct (+ disambiguate_short) on k words over a byte alphabet vs the
                 reference item list and the state shape the token layer starts from (this is the
                 hand-off obligation between the two layers; it also carries C09's clause "the
                 first `--` is pre-consumed, later items are never re-tokenised")
Token layer:
  spell:...      relational: replacing one argument occurrence by another spelling
                 (`--n v`, `--n=v`, `-n v`, `-n=v`, `-nv`) leaves class and value unchanged
  adj:...        differential against the reference semantics for an `adjacent` argument (j1) and
                 for aliases (g3)
"""
import z3

from mirsym.engine import parse_callee, Unmodelled, ExecError, BoundExceeded, Panic, Infeasible, Exec
from mirsym.values import *
from mirsym.models import val_eq, NONE, SOME, rda, bstr_eq, byte_eq
from mirsym import textmodels as TM
from spec import grammar as G
from . import tok, C01
from .tokdiff import run_tok_job, finish_tok, fmt_debug, help_names, assume_not_named
from .framework import Replayer
from .corpus import CORPUS

PROP = "C02"

DASH, EQ = 0x2D, 0x3D


# ------------------------------------------------------------------------------------------------
# reference tokenization of one OS string (bytes), from the documentation:
#   `--name`, `--name=value`, `-n`, `-n=value`, `-nvalue` / `-abc`; the name is valid UTF-8, the
#   value is whatever bytes follow (the first `=` for long names and for `-n=value`); a short name is
#   one *character*; anything else (no leading dash, lone `-`, lone `--`, undecodable name) is a word

def beq(ex, b, c, tag="ref"):
    if isinstance(b, int):
        return b == c
    return ex.branch(b == c, tag)


def ref_split(ex, bs):
    """returns None (plain word) | ('long', name_bytes, value_bytes|None) | ('short', name_bytes, value_bytes|None)"""
    n = len(bs)
    if n < 2 or not beq(ex, bs[0], DASH):
        return None
    if beq(ex, bs[1], DASH):
        rest = bs[2:]
        if not rest:
            return None
        q = None
        for i, b in enumerate(rest):
            if beq(ex, b, EQ):
                q = i
                break
        name = rest if q is None else rest[:q]
        if not TM.utf8_valid(ex, name):
            return None
        return ("long", tuple(name), None if q is None else tuple(rest[q + 1:]))
    # short: the first character after the dash is (the start of) the name
    w = TM.utf8_width_at(ex, bs, 1)
    if w == 0:
        return None
    c0 = bs[1:1 + w]
    tail = bs[1 + w:]
    q = None
    for i, b in enumerate(tail):
        if beq(ex, b, EQ):
            q = i
            break
    if q is None:
        if not TM.utf8_valid(ex, tail):
            return None
        return ("short", tuple(c0) + tuple(tail), None)
    if q == 0:
        return ("short", tuple(c0), tuple(tail[1:]))
    # `-nVALUE` where VALUE contains `=`: everything after the first character is the value
    return ("short", tuple(c0), tuple(tail))


def bytes_eq(ex, a, b):
    if len(a) != len(b):
        return False
    from mirsym.models import and_all
    return and_all(ex, [byte_eq(x, y) for x, y in zip(a, b)])


def conc_bytes(m, bs):
    out = []
    for b in bs:
        if isinstance(b, int):
            out.append(b)
        else:
            out.append(m.eval(b, model_completion=True).as_long())
    return bytes(out)


def new_text_exec(prog, **kw):
    ex = Exec(prog, dict(TM.TEXT_MODELS), **kw)
    TM.install_hooks(ex)
    for s in ("", "--", "-"):
        ex.intern(s)
    return ex


# ------------------------------------------------------------------------------------------------
# split jobs

def run_split_job(job, build):
    prog = tok.load_program(build, "none")
    ex = new_text_exec(prog, step_budget=200000)
    L = job["len"]
    first = job.get("first")  # sharding on the class of the first two bytes
    out = {"stats": None, "cex": [], "inconclusive": [], "samples": [], "nontrivial": 0, "classes": {}, "obligations": 0}
    LA = prog.layout

    def harness(ex):
        bs = [ex.fresh("b", 8) for _ in range(L)]
        if first is not None:
            for i, cls in enumerate(first):
                if i >= L:
                    break
                if cls == "dash":
                    ex.assume(bs[i] == DASH)
                elif cls == "other":
                    ex.assume(bs[i] != DASH)
        inp = BStr(tuple(bs))
        res = ex.call(parse_callee("arg::split_os_argument"), [Ref(Cell(inp, "input"), ())])
        return (bs, res)

    def on_path(ex, r):
        if r.kind != "ok":
            bs = None
            m = ex.model()
            out["cex"].append({"kind": "split-panics", "bytes": None, "info": str(r.info), "predicted": "panic", "expected": "no panic"})
            return
        bs, res = r.value
        if ex.pc:
            out["nontrivial"] += 1
        # decode the implementation's answer
        if res.var == 0:
            got = None
        else:
            ty, name, val = res.fields[0]
            tyname = LA.adts["ArgType"]["variants"][ty.var][0].lower()
            nb = tuple(TM.to_bstr(rda(name)).b)
            if val.var == 0:
                vb = None
            else:
                arg = val.fields[0]
                vb = tuple(TM.to_bstr(rda(arg.fields[0])).b)
                if LA.adts["Arg"]["variants"][arg.var][0] != "ArgWord":
                    vb = ("not-argword",)
            got = (tyname, nb, vb)
        out["classes"][got[0] if got else "word"] = out["classes"].get(got[0] if got else "word", 0) + 1

        def leaf(ex2, want):
            out["obligations"] += 1
            bad = None
            if (got is None) != (want is None):
                bad = "word vs named"
            elif got is not None:
                if got[0] != want[0]:
                    bad = "kind"
                elif (got[2] is None) != (want[2] is None):
                    bad = "value presence"
                else:
                    eq = bytes_eq(ex2, got[1], want[1])
                    if got[2] is not None:
                        from mirsym.models import and_all
                        eq = and_all(ex2, [eq, bytes_eq(ex2, got[2], want[2])])
                    if eq is False or (eq is not True and ex2.prove(eq) is not None):
                        if eq is not False and eq is not True:
                            ex2.solver.add(z3.Not(eq))
                        bad = "name/value bytes"
            if bad:
                m = ex2.model()
                raw = conc_bytes(m, bs)
                def show(x):
                    if x is None:
                        return None
                    return [x[0], conc_bytes(m, x[1]).hex(), None if x[2] is None else conc_bytes(m, [b for b in x[2] if not isinstance(b, str)]).hex()]
                out["cex"].append({"kind": "split-differs", "bytes": raw.hex(), "why": bad, "predicted": show(got), "expected": show(want)})
        ex.sub_explore(lambda e: ref_split(e, bs), leaf)
        if len(out["samples"]) < 2:
            m = ex.model()
            out["samples"].append({"input_bytes": conc_bytes(m, bs).hex(), "tokenized_as": got[0] if got else "word"})

    try:
        ex.explore(harness, on_path, max_paths=400000)
    except Unmodelled as e:
        out["inconclusive"].append("UNMODELLED %s [%s]" % (e, "/".join(ex.callstack[-3:])))
    except BoundExceeded as e:
        out["inconclusive"].append("BOUND %s" % e)
    except ExecError as e:
        out["inconclusive"].append("EXEC-ERROR %s [%s]" % (e, "/".join(ex.callstack[-3:])))
    out["stats"] = dict(ex.stats)
    out["models_used"] = dict(ex.model_hits)
    out["fn_hits"] = dict(ex.fn_hits)
    confirm_split_cex(out, build)
    return out


def role_of_split(raw, want):
    """key of known findings by role"""
    if want and want[0] == "short":
        name = bytes.fromhex(want[1])
        if len(name) > 1 and want[2] is not None:
            return "multibyte-short-name-with-attached-equals"
    return None


def confirm_split_cex(out, build):
    """replay through the public API with a dynamically built probe grammar"""
    todo = [c for c in out["cex"] if c["kind"] == "split-differs"]
    if not todo:
        return
    rp = Replayer(build["sets"]["none"]["replay"])
    cases = []
    for c in todo:
        want = c["expected"]
        raw = bytes.fromhex(c["bytes"])
        if want is None:
            spec = "probe:long:7a7a7a"  # any name: the word must come out as a positional
        else:
            name = bytes.fromhex(want[1])
            try:
                txt = name.decode("utf-8")
            except UnicodeDecodeError:
                txt = None
            if txt is None or (want[0] == "short" and len(txt) != 1) or txt == "":
                c["reproduced"] = None
                c["native"] = "no public-API probe for this name"
                cases.append(None)
                continue
            spec = "probe:%s:%s" % (want[0], name.hex())
        cases.append((spec, [raw], {}))
    real = [x for x in cases if x is not None]
    got = rp.run(real) if real else []
    gi = 0
    for c, case in zip(todo, cases):
        if case is None:
            continue
        cls, pay = got[gi]
        gi += 1
        c["native"] = [cls, pay]
        want = c["expected"]
        raw = bytes.fromhex(c["bytes"])
        # expected rendering of the first probe (argument with value) / second probe (flag)
        def dbg(b):
            return '"%s"' % b.decode("utf-8", "replace").replace("\\", "\\\\").replace('"', '\\"')
        ok_as_expected = False
        try:
            first, second = pay.split("\tok\t", 1) if "\tok\t" in pay else (pay, "")
        except ValueError:
            first, second = pay, ""
        if want is None:
            ok_as_expected = cls == "ok" and first.startswith("([], [") and dbg(raw)[1:-1] in first
        elif want[2] is not None:
            val = bytes.fromhex(want[2])
            ok_as_expected = cls == "ok" and first.startswith("([" + dbg(val) + "], [])")
        else:
            ok_as_expected = "(1, [])" in pay
        c["reproduced"] = not ok_as_expected
        c["finding_key"] = role_of_split(raw, want)


# ------------------------------------------------------------------------------------------------
# passthrough jobs: parse_os_str::<OsString> / ::<PathBuf> hand back exactly the bytes they got

def run_passthrough_job(job, build):
    prog = tok.load_program(build, "none")
    ex = new_text_exec(prog, step_budget=100000)
    T = job["ty"]
    L = job["len"]
    out = {"stats": None, "cex": [], "inconclusive": [], "samples": [], "nontrivial": 0, "classes": {}, "obligations": 0}

    def resolve(g):
        g = (g or "").strip()
        return T if g == "T" else g.split("::")[-1]

    def m_typeid(ex_, c, args):
        return Opaque("typeid", (resolve(c.generics),))

    def m_downcast(ex_, c, args):
        # Box<dyn Any>::downcast::<T>: succeeds iff the boxed value's type is T; the boxed values here
        # are the OsString itself or PathBuf::from(it)
        from mirsym.models import OK, ERR
        want = resolve(c.generics)
        tag = ex_.box_type.get(id(args[0]), getattr(ex_, "last_boxed", None))
        if want == tag:
            return OK(args[0])
        return ERR(args[0])

    def m_pathbuf_from(ex_, c, args):
        v = rda(args[0])
        ex_.last_boxed = "PathBuf"
        return v

    def m_box_new(ex_, c, args):
        g = (c.raw or "")
        if "PathBuf" in g:
            ex_.last_boxed = "PathBuf"
        elif "OsString" in g:
            ex_.last_boxed = "OsString"
        return args[0]

    def m_from_str(ex_, c, args):
        # <PathBuf as FromStr> / <OsString as FromStr> are infallible conversions of the given text
        from mirsym.models import OK
        return OK(rda(args[0]))
    ex.models["TypeId::of"] = m_typeid
    ex.models["Box::downcast"] = m_downcast
    ex.models["PathBuf::from"] = m_pathbuf_from
    ex.models["Box::new"] = m_box_new
    ex.models["FromStr::from_str"] = m_from_str
    from mirsym import fmtmodels as FM
    for k, v in FM.FMT_MODELS.items():
        ex.models.setdefault(k, v)
    ex.box_type = {}

    def harness(ex):
        bs = [ex.fresh("b", 8) for _ in range(L)]
        ex.last_boxed = None
        res = ex.call(parse_callee("from_os_str::parse_os_str::<T>"), [BStr(tuple(bs))])
        return (bs, res)

    def on_path(ex, r):
        out["obligations"] += 1
        if ex.pc:
            out["nontrivial"] += 1
        if r.kind != "ok":
            out["cex"].append({"kind": "passthrough-panics", "ty": T, "info": str(r.info), "bytes": None})
            return
        bs, res = r.value
        bad = None
        if res.var != 0:
            bad = "conversion failed"
        else:
            got = TM.to_bstr(rda(res.fields[0])).b
            eq = bytes_eq(ex, got, bs)
            if eq is False or (eq is not True and ex.prove(eq) is not None):
                if eq is not False and eq is not True:
                    ex.solver.add(z3.Not(eq))
                bad = "bytes differ"
        if bad:
            m = ex.model()
            out["cex"].append({"kind": "passthrough-differs", "ty": T, "bytes": conc_bytes(m, bs).hex(), "why": bad})
        elif len(out["samples"]) < 1:
            out["samples"].append({"type": T, "bytes": conc_bytes(ex.model(), bs).hex(), "result": "Ok(same bytes)"})
    try:
        ex.explore(harness, on_path, max_paths=100000)
    except Unmodelled as e:
        out["inconclusive"].append("UNMODELLED %s [%s]" % (e, "/".join(ex.callstack[-3:])))
    except BoundExceeded as e:
        out["inconclusive"].append("BOUND %s" % e)
    except ExecError as e:
        out["inconclusive"].append("EXEC-ERROR %s [%s]" % (e, "/".join(ex.callstack[-3:])))
    out["stats"] = dict(ex.stats)
    out["models_used"] = dict(ex.model_hits)
    out["fn_hits"] = dict(ex.fn_hits)
    todo = [c for c in out["cex"] if c["kind"] == "passthrough-differs"]
    if todo:
        rp = Replayer(build["sets"]["none"]["replay"])
        got = rp.run([("pp", [(b"--path=" if c["ty"] == "PathBuf" else b"--os=") + bytes.fromhex(c["bytes"])], {}) for c in todo])
        for c, (cls, pay) in zip(todo, got):
            c["native"] = [cls, pay[:300]]
            c["reproduced"] = cls != "ok"
    return out


# ------------------------------------------------------------------------------------------------
# construct jobs

ALPHA_FULL = [DASH, EQ, ord("a"), ord("b"), ord("z"), 0xC3, 0xA9]
ALPHA_SMALL = [DASH, EQ, ord("a"), ord("b")]
SHORT_FLAGS = [ord("a"), ord("h"), ord("V"), 0xE9]  # 0xE9 = e-acute, bytes C3 A9 (both in ALPHA_FULL)
SHORT_ARGS = [ord("b")]


def ref_items(ex, words):
    """reference token list for State::construct: list of (kind, name, adj, value_bytes, os_bytes) ; 'amb' on ambiguity"""
    items = []
    pos_only = False
    for bs in words:
        bs = tuple(bs)
        if pos_only:
            items.append(("posword", None, False, bs, None))
            continue
        sp = ref_split(ex, list(bs))
        if sp is None:
            if len(bs) == 2 and beq(ex, bs[0], DASH) and beq(ex, bs[1], DASH):
                pos_only = True
                items.append(("dd", None, False, bs, None))
            else:
                items.append(("word", None, False, bs, None))
            continue
        kind, name, val = sp
        if kind == "long":
            items.append(("long", name, val is not None, None, bs))
            if val is not None:
                items.append(("argword", None, False, val, None))
            continue
        if val is not None:
            items.append(("short", name, True, None, bs))
            items.append(("argword", None, False, val, None))
            continue
        # cluster / single short without `=`: decode chars
        chars = []
        p = 0
        while p < len(name):
            w = TM.utf8_width_at(ex, list(name), p)
            chars.append(name[p:p + w])
            p += w
        if len(chars) == 1:
            items.append(("short", chars[0], False, None, bs))
            continue
        start = len(items)
        done = False
        for ci, ch in enumerate(chars):
            def is_name(cp):
                enc = tuple(chr(cp).encode("utf-8"))
                return len(enc) == len(ch) and all(beq(ex, x, y) for x, y in zip(ch, enc))
            is_flag = any(is_name(f) for f in SHORT_FLAGS)
            is_arg = any(is_name(a) for a in SHORT_ARGS)
            rest = tuple(b for c2 in chars[ci + 1:] for b in c2)
            if is_flag and not is_arg:
                items.append(("short", ch, False, None, bs if ci == 0 else ()))
            elif is_arg and not is_flag:
                items.append(("short", ch, bool(rest), None, bs))
                if rest:
                    items.append(("word", None, False, rest, None))
                done = True
                break
            elif not is_flag and not is_arg:
                del items[start:]
                items.append(("word", None, False, bs, None))
                done = True
                break
            else:
                return "amb"
        continue
    return items


def run_construct_job(job, build):
    prog = tok.load_program(build, "none")
    ex = new_text_exec(prog, step_budget=400000)
    lens = job["lens"]
    alpha = ALPHA_FULL if job.get("alpha") == "full" else ALPHA_SMALL
    out = {"stats": None, "cex": [], "inconclusive": [], "samples": [], "nontrivial": 0, "classes": {}, "obligations": 0}
    LA = prog.layout
    arg_names = [n.lower() for n, _ in LA.adts["Arg"]["variants"]]

    def harness(ex):
        words = []
        for ln in lens:
            bs = [ex.fresh("b", 8) for _ in range(ln)]
            for b in bs:
                ex.assume(z3.Or(*[b == a for a in alpha]))
            words.append(bs)
        fl = LA.adts["Args"]["fields"]
        d = {"items": PyIter("vec_into", Seq(tuple(BStr(tuple(w)) for w in words)), 0), "name": NONE, "c_rev": NONE}
        args = Adt("Args", 0, tuple(d[f] for f in fl))
        err = Cell(NONE, "err")
        st = ex.call(parse_callee("State::construct"), [args, Ref(Cell(Seq(tuple(SHORT_FLAGS))), ()), Ref(Cell(Seq(tuple(SHORT_ARGS))), ()), Ref(err, ())])
        return (words, st, err.v)

    def on_path(ex, r):
        if r.kind != "ok":
            out["cex"].append({"kind": "construct-panics", "info": str(r.info), "argv": None})
            return
        words, st, err = r.value
        if ex.pc:
            out["nontrivial"] += 1
        from . import lemmas
        f = lemmas.fields_of(ex, st)
        got = []
        for it in f["items"].items:
            k = arg_names[it.var]
            if k == "short":
                nm = it.fields[0]
                got.append(("short", nm, it.fields[1], None, tuple(TM.to_bstr(rda(it.fields[2])).b)))
            elif k == "long":
                got.append(("long", tuple(TM.to_bstr(rda(it.fields[0])).b), it.fields[1], None, tuple(TM.to_bstr(rda(it.fields[2])).b)))
            else:
                got.append((k, None, False, tuple(TM.to_bstr(rda(it.fields[0])).b), None))

        def leaf(ex2, want):
            out["obligations"] += 1
            bad = None
            conds = []
            if want == "amb":
                if err.var != 1:
                    bad = "ambiguity not reported"
            else:
                if err.var == 1:
                    bad = "unexpected ambiguity error"
                elif len(got) != len(want):
                    bad = "item count %d vs %d" % (len(got), len(want))
                else:
                    dd_ix = None
                    for i, (g_, w_) in enumerate(zip(got, want)):
                        wk = "posword" if w_[0] == "dd" else w_[0]
                        if g_[0] != wk:
                            bad = "item %d kind %s vs %s" % (i, g_[0], w_[0])
                            break
                        if w_[0] == "dd" and dd_ix is None:
                            dd_ix = i
                        if g_[2] is not w_[2] and g_[2] != w_[2]:
                            bad = "item %d adjacency flag" % i
                            break
                        if wk == "short":
                            ch, _w = TM.decode_char(ex2, list(w_[1]), 0)
                            conds.append(val_eq(ex2, g_[1], ch))
                        elif wk == "long":
                            conds.append(bytes_eq(ex2, g_[1], w_[1]))
                        else:
                            conds.append(bytes_eq(ex2, g_[3], w_[3]))
                        if wk in ("short", "long"):
                            conds.append(bytes_eq(ex2, g_[4], w_[4]))
                    if bad is None:
                        # the state the token layer starts from
                        states = [x.var for x in f["item_state"].items]
                        un = LA.variant_index("ItemState", "Unparsed")
                        pa = LA.variant_index("ItemState", "Parsed")
                        exp = [pa if i == dd_ix else un for i in range(len(want))]
                        if states != exp:
                            bad = "item_state %r vs %r" % (states, exp)
                        elif f["remaining"] != len(want) - (1 if dd_ix is not None else 0):
                            bad = "remaining"
                        elif f["scope"].fields != (0, len(want)) or f["current"].var != 0 or len(f["path"].items) != 0:
                            bad = "scope/current/path"
            if bad is None and conds:
                from mirsym.models import and_all
                eq = and_all(ex2, conds)
                if eq is False or (eq is not True and ex2.prove(eq) is not None):
                    if eq is not False and eq is not True:
                        ex2.solver.add(z3.Not(eq))
                    bad = "names / values / original strings differ"
            if bad:
                m = ex2.model()
                argv = [conc_bytes(m, w) for w in words]
                out["cex"].append({"kind": "construct-differs", "argv_hex": [a.hex() for a in argv], "why": bad,
                                   "argv": [a.decode("utf-8", "replace") for a in argv]})
        ex.sub_explore(lambda e: ref_items(e, words), leaf)
        if len(out["samples"]) < 2:
            m = ex.model()
            out["samples"].append({"argv": [conc_bytes(m, w).decode("utf-8", "replace") for w in words], "items": [g_[0] for g_ in got]})

    try:
        ex.explore(harness, on_path, max_paths=400000)
    except Unmodelled as e:
        out["inconclusive"].append("UNMODELLED %s [%s]" % (e, "/".join(ex.callstack[-3:])))
    except BoundExceeded as e:
        out["inconclusive"].append("BOUND %s" % e)
    except ExecError as e:
        out["inconclusive"].append("EXEC-ERROR %s [%s]" % (e, "/".join(ex.callstack[-3:])))
    out["stats"] = dict(ex.stats)
    out["models_used"] = dict(ex.model_hits)
    out["fn_hits"] = dict(ex.fn_hits)
    confirm_construct_cex(out, build)
    return out


def py_tokenize(argv):
    """concrete reference tokenization (same rules as ref_items) for native confirmation"""
    class CE:  # concrete 'executor' for the reference functions
        @staticmethod
        def branch(c, tag=None):
            return bool(c)
    return ref_items(CE, [list(a) for a in argv])


def pt_expected(items, adjacent_b=False):
    """what grammar `pt` (switches -a and -e-acute, optional OsString -b/--beta, OsString positionals)
    must answer on the reference items; returns ('ok', a, e, b, xs) or 'fail'"""
    if items == "amb":
        return "fail"
    a = 0
    e = 0
    b = []
    xs = []
    i = 0
    n = len(items)
    claimed = [False] * n
    for i, it in enumerate(items):
        if it[0] == "dd":
            claimed[i] = True
    for i, it in enumerate(items):
        k = it[0]
        if k in ("short", "long"):
            nm = bytes(it[1])
            if (k == "short" and nm == b"a") or (k == "long" and nm == b"alpha"):
                a += 1
                claimed[i] = True
            elif (k == "short" and nm == "\u00e9".encode("utf-8")) or (k == "long" and nm == b"eacute"):
                e += 1
                claimed[i] = True
            elif (k == "short" and nm == b"b") or (k == "long" and nm == b"beta"):
                if adjacent_b and not it[2]:
                    return "fail"  # grammar pj: `adjacent()` accepts only spellings where name and value share one item
                if i + 1 < n and items[i + 1][0] in ("word", "argword") and not claimed[i + 1]:
                    b.append(bytes(items[i + 1][3]))
                    claimed[i] = claimed[i + 1] = True
                else:
                    return "fail"
            elif (k == "short" and nm == b"h") or (k == "long" and nm == b"help"):
                return "help"
            else:
                return "fail"
    for i, it in enumerate(items):
        if not claimed[i]:
            if it[0] in ("word", "posword"):
                xs.append(bytes(it[3]))
                claimed[i] = True
            else:
                return "fail"
    if a > 1 or e > 1 or len(b) > 1:
        return "fail"
    return ("ok", a == 1, e == 1, b[0] if b else None, xs)


def rust_dbg(b):
    s = b.decode("utf-8", "replace")
    out = []
    for ch in s:
        if ch == '"':
            out.append('\\"')
        elif ch == "\\":
            out.append("\\\\")
        else:
            out.append(ch)
    return '"' + "".join(out) + '"'


def confirm_construct_cex(out, build):
    todo = [c for c in out["cex"] if c["kind"] == "construct-differs"]
    if not todo:
        return
    rp = Replayer(build["sets"]["none"]["replay"])
    _confirm_with(rp, todo, "pt", False)
    # a wrong adjacency flag is only observable through an `adjacent()` argument: grammar pj
    again = [c for c in todo if c.get("reproduced") is False]
    if again:
        _confirm_with(rp, again, "pj", True)


def _confirm_with(rp, todo, gname, adjacent_b):
    got = rp.run([(gname, [bytes.fromhex(h) for h in c["argv_hex"]], {}) for c in todo])
    for c, (cls, pay) in zip(todo, got):
        argv = [bytes.fromhex(h) for h in c["argv_hex"]]
        exp = pt_expected(py_tokenize(argv), adjacent_b)
        c["confirm_grammar"] = gname
        c["native"] = [cls, pay]
        c["expected_from_reference"] = repr(exp)
        if any(b >= 0x80 for a in argv for b in a):
            # Debug rendering of non-UTF-8 OsStrings is not reconstructed here
            try:
                for a in argv:
                    a.decode("utf-8")
            except UnicodeDecodeError:
                c["reproduced"] = None
                continue
        if exp == "fail":
            c["reproduced"] = cls != "stderr"
        elif exp == "help":
            c["reproduced"] = cls != "stdout"
        else:
            want = "(%s, %s, %s, [%s])" % ("true" if exp[1] else "false", "true" if exp[2] else "false",
                                           "None" if exp[3] is None else "Some(%s)" % rust_dbg(exp[3]),
                                           ", ".join(rust_dbg(x) for x in exp[4]))
            c["reproduced"] = not (cls == "ok" and pay == want)
            c["expected_native"] = want


# ------------------------------------------------------------------------------------------------
# token layer: spelling equivalence (relational)

SPELLINGS = [("long", "word"), ("long=",), ("short", "word"), ("short=",), ("shortv",)]
SPELL_GRAMMARS = {"g1": ("b", "beta"), "p1": ("b", "beta"), "g4": ("d", "delta"), "v1": ("a", "alpha")}


def run_spell_job(job, build):
    prog = tok.load_program(build, "none")
    ex = tok.new_exec(prog, step_budget=800000)
    g = CORPUS[job["grammar"]]
    pre = tuple(job["pre"])
    post = tuple(job["post"])
    sa, sb = SPELLINGS[job["sa"]], SPELLINGS[job["sb"]]
    sname, lname = SPELL_GRAMMARS[job["grammar"]]
    layout = prog.layout
    out = {"stats": None, "cex": [], "inconclusive": [], "samples": [], "nontrivial": 0, "classes": {}, "pairs": 0}

    def mk_occ(ex, forms, val):
        ws = []
        for f in forms:
            if f == "long":
                ws.append(tok.Word("long", name=z3.IntVal(ex.intern(lname))))
            elif f == "long=":
                ws.append(tok.Word("long=", name=z3.IntVal(ex.intern(lname)), val=val))
            elif f == "short":
                ws.append(tok.Word("short", name=z3.BitVecVal(ord(sname), 32)))
            elif f == "short=":
                ws.append(tok.Word("short=", name=z3.BitVecVal(ord(sname), 32), val=val))
            elif f == "shortv":
                ws.append(tok.Word("shortv", name=z3.BitVecVal(ord(sname), 32), val=val))
            elif f == "word":
                ws.append(tok.Word("word", val=val))
        for j, w in enumerate(ws):
            if w.form != "word":
                w.os = z3.IntVal(tok.FOREIGN_BASE * 20 + j)
        return ws

    def harness(ex):
        parser = ex.call(parse_callee(g.builder), [])
        shape = pre + post
        words = tok.gen_words_sharded(ex, sum(tok.FORM_ITEMS[f] for f in shape), g.decl, shape)
        (hs, hl), (vs, vl), hv = help_names(ex, parser)
        assume_not_named(ex, words, hs, hl)
        val = ex.fresh("v", "int")
        ex.assume(val >= 0)
        # a value attached without `=` is not empty and (as a separate word) is not the separator
        ex.assume(val != ex.intern(""))
        ex.assume(val != ex.intern("--"))
        res = []
        both = []
        for sp in (sa, sb):
            ws = list(words[:len(pre)]) + mk_occ(ex, sp, val) + list(words[len(pre):])
            both.append(ws)
            items = tok.words_to_items(ex, ws)
            st = Cell(tok.mk_state(ex, items), "state")
            pc = Cell(parser, "parser")
            res.append(ex.call(parse_callee("OptionParser::run_subparser"), [Ref(pc, ()), Ref(st, ())]))
        return (both, res)

    def on_path(ex, r):
        if r.kind != "ok":
            out["inconclusive"].append("panic on a spelling path: %r" % (r.info,))
            return
        (wa, wb), (ra, rb) = r.value
        out["pairs"] += 1
        if ex.pc:
            out["nontrivial"] += 1
        ca, pa = tok.classify(ex, ra)
        cb, pb = tok.classify(ex, rb)
        out["classes"][ca] = out["classes"].get(ca, 0) + 1
        bad = None
        if ca != cb:
            bad = "class differs"
        elif ca == "ok":
            eq = val_eq(ex, pa, pb)
            if ex.prove(eq) is not None:
                ex.solver.add(z3.Not(eq))
                bad = "value differs"
        if bad or len(out["samples"]) < 1:
            m = ex.model()
            cz = tok.Concretizer(ex, m)
            a1, a2 = cz.argv(wa), cz.argv(wb)
            if bad:
                out["cex"].append({"kind": "spelling-matters", "grammar": job["grammar"], "argv": a1, "argv_other": a2, "why": bad,
                                   "predicted": [[ca, fmt_debug(cz, pa, layout) if ca == "ok" else None], [cb, fmt_debug(cz, pb, layout) if cb == "ok" else None]]})
            else:
                out["samples"].append({"grammar": job["grammar"], "argv": a1, "argv_other_spelling": a2, "class": ca})

    try:
        ex.explore(harness, on_path, max_paths=200000)
    except Unmodelled as e:
        out["inconclusive"].append("UNMODELLED %s" % e)
    except BoundExceeded as e:
        out["inconclusive"].append("BOUND %s" % e)
    except ExecError as e:
        out["inconclusive"].append("EXEC-ERROR %s" % e)
    out["stats"] = dict(ex.stats)
    out["models_used"] = dict(ex.model_hits)
    out["fn_hits"] = dict(ex.fn_hits)
    if out["cex"]:
        rp = Replayer(build["sets"]["none"]["replay"])
        cases = []
        for c in out["cex"]:
            cases.append((c["grammar"], c["argv"], {}))
            cases.append((c["grammar"], c["argv_other"], {}))
        got = rp.run(cases)
        for i, c in enumerate(out["cex"]):
            n1, n2 = got[2 * i], got[2 * i + 1]
            c["native"] = [list(n1), list(n2)]
            c["reproduced"] = not (n1[0] == n2[0] and (n1[0] != "ok" or n1[1] == n2[1]))
    return out


# ------------------------------------------------------------------------------------------------

def make_jobs(tier, seed, build):
    jobs = []
    lmax = 4 if tier == "quick" else 5
    for L in range(0, lmax + 1):
        if L >= 4:
            for first in (("dash", "dash"), ("dash", "other"), ("other",)):
                jobs.append({"id": "split:%d:%s" % (L, "-".join(first)), "kind": "split", "len": L, "first": first})
        else:
            jobs.append({"id": "split:%d" % L, "kind": "split", "len": L})
    # construct: word-length vectors
    lens = []
    if tier == "quick":
        one = [(l,) for l in range(0, 6)]
        two = [(a, b) for a in range(0, 4) for b in range(0, 4) if a + b <= 5]
        three = [(a, b, c) for a in range(1, 3) for b in range(1, 3) for c in range(1, 3)]
    else:
        one = [(l,) for l in range(0, 6)]
        two = [(a, b) for a in range(0, 5) for b in range(0, 5) if a + b <= 6]
        three = [(a, b, c) for a in range(0, 4) for b in range(0, 4) for c in range(0, 4) if a + b + c <= 6]
    for ls in one + two:
        jobs.append({"id": "construct:full:%s" % ",".join(map(str, ls)), "kind": "construct", "lens": ls, "alpha": "full"})
    for ls in three:
        jobs.append({"id": "construct:small:%s" % ",".join(map(str, ls)), "kind": "construct", "lens": ls, "alpha": "small"})
    for ty in ("OsString", "PathBuf"):
        for L in range(0, (3 if tier == "quick" else 4) + 1):
            jobs.append({"id": "passthrough:%s:%d" % (ty, L), "kind": "passthrough", "ty": ty, "len": L})
    # spelling equivalence
    ctx = [((), ()), (("short",), ()), ((), ("long",)), (("word",), ()), ((), ("word",)), ((), ("dd",))]
    if tier != "quick":
        ctx += [(("long=",), ()), ((), ("short=",)), (("short",), ("word",)), (("word",), ("long",)), ((), ("short", "word"))]
    for gname in SPELL_GRAMMARS:
        for pre, post in ctx:
            for i in range(len(SPELLINGS)):
                for j in range(i + 1, len(SPELLINGS)):
                    jobs.append({"id": "spell:%s:%s|%s:%d-%d" % (gname, ",".join(pre), ",".join(post), i, j), "kind": "spell",
                                 "grammar": gname, "pre": pre, "post": post, "sa": i, "sb": j})
    # adjacent argument / aliases: differential against the reference semantics
    for gname in ("j1", "g3"):
        g = CORPUS[gname]
        for shape in tok.all_shapes_by_words(3 if tier == "quick" else 4, g.decl, full_upto=3):
            jobs.append({"id": "adj:%s:%s" % (gname, ",".join(shape)), "kind": "adj", "grammar": gname, "shape": shape, "fs": "none"})
    return jobs


def run_job(job, build):
    k = job["kind"]
    if k == "split":
        return run_split_job(job, build)
    if k == "construct":
        return run_construct_job(job, build)
    if k == "passthrough":
        return run_passthrough_job(job, build)
    if k == "spell":
        return run_spell_job(job, build)
    return run_tok_job(job, build, CORPUS, C01.Oracle())


def report_text_results(out, results):
    """turn the counterexamples of split / construct / spell jobs into violations (after native confirmation)"""
    for r in results:
        if r.get("error"):
            out.inconc("job %s crashed: %s" % (r["job"], r["error"]))
        for w in r.get("inconclusive", []):
            out.inconc("%s: %s" % (r["job"], w))
        for c in r.get("cex", []):
            if c["kind"] == "split-differs":
                what = "split_os_argument(%s = %r): bpaf %s, expected %s (%s); public-API probe: %s" % (
                    c["bytes"], bytes.fromhex(c["bytes"]).decode("utf-8", "replace"), c["predicted"], c["expected"], c["why"], c.get("native"))
                if c.get("reproduced"):
                    out.violation(c.get("finding_key") or ("split:" + c["bytes"]), what, c)
                elif c.get("reproduced") is None:
                    out.inconc("UNREPLAYABLE " + what)
                else:
                    out.inconc("NONREPRO " + what)
            elif c["kind"] == "construct-differs":
                what = "State::construct on %r: %s; grammar %s natively: %s, reference expects %s" % (c["argv"], c["why"], c.get("confirm_grammar", "pt"), c.get("native"), c.get("expected_from_reference"))
                if c.get("reproduced"):
                    out.violation("construct:" + ",".join(c["argv_hex"]), what, c)
                elif c.get("reproduced") is None:
                    out.inconc("UNREPLAYABLE " + what)
                else:
                    out.inconc("NONREPRO " + what)
            elif c["kind"] == "passthrough-differs":
                what = "parse_os_str::<%s> on bytes %s: %s (grammar pp natively: %s)" % (c["ty"], c["bytes"], c["why"], c.get("native"))
                if c.get("reproduced"):
                    out.violation("passthrough:%s:%s" % (c["ty"], c["bytes"]), what, c)
                else:
                    out.inconc("NONREPRO " + what)
            elif c["kind"] == "spelling-matters":
                what = "spelling matters on %s: %r => %s but %r => %s" % (c["grammar"], c["argv"], c["native"][0], c["argv_other"], c["native"][1])
                if c.get("reproduced"):
                    out.violation("spell:%s:%s:%s" % (c["grammar"], " ".join(c["argv"]), " ".join(c["argv_other"])), what, c)
                else:
                    out.inconc("NONREPRO " + what)
            else:
                out.violation("%s:%s" % (c["kind"], (c.get("info") or "")[:80]), "%s: %s" % (c["kind"], c.get("info")), c)


def finish(results, jobs, build, out, tier, seed, wall):
    from . import framework as fw
    byid = {j["id"]: j for j in jobs}
    adj = [r for r in results if byid[r["job"]]["kind"] == "adj"]
    other = [r for r in results if byid[r["job"]]["kind"] != "adj"]
    ev = finish_tok(PROP, adj, [j for j in jobs if j["kind"] == "adj"], build, out, tier, seed, wall, C01.Oracle(), CORPUS,
                    {"split_bytes": "every byte string of length 0..=%d (all 256 byte values symbolic)" % (4 if tier == "quick" else 5),
                     "construct": "1-2 words over {-,=,a,b,z,0xC3,0xA9} and 3 words over {-,=,a,b}; total length <= %d" % (5 if tier == "quick" else 6),
                     "spelling_pairs": "all 10 pairs of the 5 spellings in %d contexts on 4 grammars" % (6 if tier == "quick" else 11),
                     "adjacent_and_aliases": "<=%d argv words on j1, g3" % (3 if tier == "quick" else 4)})
    st = fw.merge_stats(other)
    report_text_results(out, other)
    cov = ev["coverage"]
    cov["text_layer_paths"] = st["paths"]
    cov["text_layer_queries"] = st["queries"]
    cov["text_layer_obligations"] = sum(r.get("obligations", 0) for r in other)
    cov["spelling_pairs_checked"] = sum(r.get("pairs", 0) for r in other)
    cov["evaluations"] += st["queries"]
    cov["distinct_nontrivial"] += sum(r.get("nontrivial", 0) for r in other)
    cov["states"] += st["paths"]
    cov["transitions"] += st["decisions"]
    cov["solver_time_s"] = round(cov["solver_time_s"] + st["solver_s"], 2)
    cov["jobs"] = len(jobs)
    cov["split_classes"] = fw.merge_counts([r for r in other if byid[r["job"]]["kind"] == "split"], "classes")
    cov["functions_encoded"] = sorted(set(cov["functions_encoded"]) | set(fw.merge_counts(other, "fn_hits")))
    for k, v in fw.merge_counts(other, "models_used").items():
        cov["models_used"][k] = cov["models_used"].get(k, 0) + v
    for s in [r["samples"][0] for r in other if r.get("samples")][:6]:
        cov["samples"].append(s)
    ev["assumptions"] += [
        "text layer: OsString = concrete-length sequence of symbolic bytes; UTF-8 validity decided by forking over the well-formed byte ranges",
        "the reference tokenization (ref_split / ref_items in props/C02.py) is written from the documentation and C02's statement, not from the code",
        "split/construct counterexamples are confirmed through the public API with a probe grammar; names that cannot be expressed there are reported as inconclusive, not as violations",
        "Windows (u16) path of split_os_argument is not compiled here",
    ]
    return ev
