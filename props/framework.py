"""Driver shared by all property checks: build from /repo, run jobs on a process pool, collect
violations (after native replay), write evidence, exit code discipline.

exit 0  every query decided, nothing violated (KNOWN-FINDING lines allowed)
exit 1  VIOLATION property=<id> replay=<file>   (reproduced natively, not a listed known finding)
exit 2  inconclusive (unmodelled callee, bound exceeded, solver unknown, non-reproducing cex ...)
"""
import atexit
import hashlib
import json
import multiprocessing as mp
import os
import shutil
import subprocess
import sys
import tempfile
import time
import traceback

VERIF = os.path.dirname(os.path.dirname(os.path.abspath(__file__)))
sys.path.insert(0, VERIF)

from mirsym import build as mbuild  # noqa: E402


def scratch_root():
    return os.environ.get("VERIF_SCRATCH", "/var/tmp")


_BUILD = None


def get_build(feature_sets=("none",), with_replay=True):
    """build once per process tree; VERIF_REUSE_BUILD=<dir> reuses an existing scratch (dev only)"""
    global _BUILD
    if _BUILD is not None:
        return _BUILD
    reuse = os.environ.get("VERIF_REUSE_BUILD")
    if reuse and os.path.exists(os.path.join(reuse, "out", "build.json")):
        info = json.load(open(os.path.join(reuse, "out", "build.json")))
        if all(fs in info["sets"] for fs in feature_sets):
            _BUILD = info
            return info
    d = tempfile.mkdtemp(prefix="bpaf-verif.", dir=scratch_root())
    atexit.register(lambda: shutil.rmtree(d, ignore_errors=True))
    info = mbuild.build(d, feature_sets, with_replay=with_replay)
    _BUILD = info
    return info


class Replayer:
    """batch interface to the native replay binary"""

    def __init__(self, binary):
        self.binary = binary

    @staticmethod
    def enc(b):
        if isinstance(b, str):
            b = b.encode("utf-8", "surrogateescape")
        return b.hex()

    def line(self, grammar, argv, env=None):
        a = ",".join("x" + self.enc(x) for x in argv) if argv else "-"
        e = ";".join("%s=%s" % (k, self.enc(v)) for k, v in sorted((env or {}).items())) or "-"
        return "%s\t%s\t%s" % (grammar, a, e)

    def run(self, cases):
        """cases: list of (grammar, argv, env) -> list of (class, payload)"""
        if not cases:
            return []
        inp = "\n".join(self.line(*c) for c in cases) + "\n"
        p = subprocess.run([self.binary], input=inp.encode(), stdout=subprocess.PIPE, stderr=subprocess.PIPE, timeout=600)
        out = p.stdout.decode("utf-8", "replace").split("\n")
        res = []
        for ln in out:
            if not ln:
                continue
            k = ln.split("\t", 1)
            res.append((k[0], k[1] if len(k) > 1 else ""))
        if len(res) != len(cases):
            raise RuntimeError("replay binary answered %d of %d cases (rc=%s, stderr=%s)" % (len(res), len(cases), p.returncode, p.stderr[-500:]))
        return res


    def hangs(self, case, timeout=10):
        """does the native binary fail to answer this one case within `timeout` seconds?"""
        inp = self.line(*case) + "\n"
        try:
            subprocess.run([self.binary], input=inp.encode(), stdout=subprocess.PIPE, stderr=subprocess.PIPE, timeout=timeout)
            return False
        except subprocess.TimeoutExpired:
            return True


def load_known_findings():
    p = os.path.join(VERIF, "known_findings.json")
    if not os.path.exists(p):
        return {"findings": [], "fixed": []}
    return json.load(open(p))


def write_replay_file(prop, payload):
    d = os.path.join(VERIF, "replays")
    os.makedirs(d, exist_ok=True)
    h = hashlib.sha256(json.dumps(payload, sort_keys=True).encode()).hexdigest()[:12]
    p = os.path.join(d, "%s-%s.json" % (prop, h))
    with open(p, "w") as f:
        json.dump(payload, f, indent=1, sort_keys=True)
    return p


_FN = None


def _run_job(job):
    fn = _FN
    t = time.time()
    try:
        r = fn(job)
    except Exception as e:  # noqa: BLE001
        r = {"error": "%s: %s" % (type(e).__name__, e), "trace": traceback.format_exc()[-3000:]}
    r["job"] = job.get("id", str(job))
    r["wall_s"] = time.time() - t
    return r


def run_jobs(fn, jobs, procs=None, progress=True):
    global _FN
    _FN = fn
    # heavy jobs first so that they do not end up alone at the tail of the run
    jobs = sorted(jobs, key=lambda j: -j.get("weight", 0))
    procs = procs or int(os.environ.get("VERIF_PROCS", "16"))
    t0 = time.time()
    results = []
    if procs == 1 or len(jobs) <= 1:
        for j in jobs:
            results.append(_run_job(j))
        return results
    ctx = mp.get_context("fork")
    with ctx.Pool(procs, maxtasksperchild=None) as pool:
        n = 0
        for r in pool.imap_unordered(_run_job, jobs, chunksize=1):
            results.append(r)
            n += 1
            if progress and (n % 50 == 0 or n == len(jobs)):
                sys.stderr.write("  [%d/%d jobs, %.0fs]\n" % (n, len(jobs), time.time() - t0))
    return results


def merge_stats(results, keys=("paths", "queries", "sat", "unsat", "unknown", "solver_s", "steps", "decisions")):
    out = {k: 0 for k in keys}
    for r in results:
        st = r.get("stats") or {}
        for k in keys:
            out[k] += st.get(k, 0)
    out["solver_s"] = round(out["solver_s"], 3)
    return out


def merge_counts(results, key):
    out = {}
    for r in results:
        for k, v in (r.get(key) or {}).items():
            out[k] = out.get(k, 0) + v
    return out


class Outcome:
    """accumulates what a check prints and how it exits"""

    def __init__(self, prop):
        self.prop = prop
        self.violations = []
        self.known = []
        self.inconclusive = []
        self.kf = load_known_findings()

    def violation(self, key, what, payload):
        for f in self.kf.get("findings", []):
            if f["property"] == self.prop and f["key"] == key:
                if key not in [k for k, _ in self.known]:
                    self.known.append((key, f["what"]))
                return
        if key in [v[0] for v in self.violations]:
            return
        payload = dict(payload)
        payload["property"] = self.prop
        payload["key"] = key
        payload["what"] = what
        path = write_replay_file(self.prop, payload)
        self.violations.append((key, what, path))

    def inconc(self, why):
        if why not in self.inconclusive:
            self.inconclusive.append(why)

    def finish(self):
        for key, what in self.known:
            print("KNOWN-FINDING: property=%s %s (%s)" % (self.prop, what, key))
        for key, what, path in self.violations:
            print("VIOLATION property=%s replay=%s" % (self.prop, path))
            print("  " + what)
        for w in self.inconclusive[:20]:
            print("INCONCLUSIVE: " + w)
        if self.violations:
            return 1
        if self.inconclusive:
            return 2
        return 0


def write_evidence(prop, tier, seed, level, coverage, assumptions, wall_s, violations):
    # VERIF_EVIDENCE_DIR: development runs against patched copies must not overwrite the real evidence
    d = os.environ.get("VERIF_EVIDENCE_DIR") or os.path.join(VERIF, "evidence")
    os.makedirs(d, exist_ok=True)
    ev = {
        "property_id": prop,
        "tier": tier,
        "seed": int(seed),
        "level": level,
        "coverage": coverage,
        "assumptions": assumptions,
        "wall_s": round(wall_s, 2),
        "violations": violations,
    }
    with open(os.path.join(d, prop + ".json"), "w") as f:
        json.dump(ev, f, indent=1, sort_keys=True, default=str)
    return ev
