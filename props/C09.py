"""C09 - `--` ends option processing; strict positionals honour it.

Differential against spec/grammar.py on the positional grammars, every shape (the shapes with a
`--` word put it at every position, with dash-looking items - i.e. arbitrary ids - on both
sides; a positional word right of `--` is an unconstrained id, so it may be the text of a
declared flag, of the help flag or of a command name).
The clause "first literal `--` is pre-consumed and later items are never re-tokenised" is about
State::construct and is decided at the text layer (props/C02 construct jobs).
"""
from . import C01, tok
from .tokdiff import run_tok_job, finish_tok
from .corpus import CORPUS

PROP = "C09"
GRAMMARS = ["p1", "p2", "p3", "p4", "p5", "p6", "g1", "c1", "v3"]


class Oracle(C01.Oracle):
    pass


def make_jobs(tier, seed, build):
    jobs = []
    nmax = 4 if tier == "quick" else 5
    for gname in GRAMMARS:
        g = CORPUS[gname]
        for shape in tok.all_shapes_by_words(nmax, g.decl, full_upto=4):
            if True:
                n = len(shape)
                has_dd = "dd" in shape
                # without `--` the strictness clauses still matter for the strict/non_strict grammars
                if not has_dd and (gname not in ("p3", "p4") or n > 3):
                    continue
                if n == 5 and gname in ("g1", "c1"):
                    continue
                jobs.append({"id": "%s:%s" % (gname, ",".join(shape)), "grammar": gname, "shape": shape, "fs": "none"})
    # text layer: State::construct on words over {-,=,a,b}: the FIRST literal `--` is pre-consumed,
    # every later word (including further `--`, `-a`, `--a`) becomes a PosWord carrying the same bytes
    lens = [(a, b) for a in range(0, 4) for b in range(0, 4) if a + b <= 5]
    lens += [(a, b, c) for a in range(1, 3) for b in range(1, 3) for c in range(1, 3)]
    if tier != "quick":
        lens += [(a, b, c) for a in range(0, 4) for b in range(0, 4) for c in range(0, 4) if a + b + c <= 6 and (a, b, c) not in lens]
        lens += [(2, 1, 2, 1), (2, 2, 2, 2), (1, 2, 1, 2), (2, 2, 1, 2)]
    for ls in lens:
        jobs.append({"id": "construct:small:%s" % ",".join(map(str, ls)), "kind": "construct", "lens": ls, "alpha": "small"})
    return jobs


def run_job(job, build):
    if job.get("kind") == "construct":
        from . import C02
        return C02.run_construct_job(job, build)
    return run_tok_job(job, build, CORPUS, Oracle())


def finish(results, jobs, build, out, tier, seed, wall):
    nmax = 4 if tier == "quick" else 5
    from . import C02, framework as fw
    byid = {j["id"]: j for j in jobs}
    text = [r for r in results if byid[r["job"]].get("kind") == "construct"]
    results = [r for r in results if byid[r["job"]].get("kind") != "construct"]
    jobs = [j for j in jobs if j.get("kind") != "construct"]
    C02.report_text_results(out, text)
    ev = finish_tok(PROP, results, jobs, build, out, tier, seed, wall, Oracle(), CORPUS,
                      {"argv_words": "0..=%d (shapes containing `--`; strict grammars also without it, <= 3 words)" % nmax, "grammars": len(GRAMMARS),
                     "construct": "State::construct from MIR on 2-3 (thorough: -4) words over the bytes {-,=,a,b}"})
    st = fw.merge_stats(text)
    ev["coverage"]["construct_jobs"] = len(text)
    ev["coverage"]["construct_paths"] = st["paths"]
    ev["coverage"]["construct_obligations"] = sum(r.get("obligations", 0) for r in text)
    ev["coverage"]["evaluations"] += st["queries"]
    ev["coverage"]["states"] += st["paths"]
    ev["assumptions"].append("construct jobs: reference tokenization from props/C02.py; words over a 4-byte alphabet")
    return ev
