"""C09 - `--` ends option processing; strict positionals honour it.

Differential against spec/grammar.py on the positional grammars, every shape (the shapes with a
`--` word put it at every position, with dash-looking items - i.e. arbitrary ids - on both
sides; a positional word right of `--` is an unconstrained id, so it may be the text of a
declared flag, of the help flag or of a command name).
The clause "first literal `--` is pre-consumed and later items are never re-tokenised" is about
State::construct and is decided at the text layer (props/C02 construct jobs).
"""
from . import C01, tok
from .tokdiff import run_tok_job, finish_tok
from .corpus import CORPUS

PROP = "C09"
GRAMMARS = ["p1", "p2", "p3", "p4", "p5", "g1", "c1", "v3"]


class Oracle(C01.Oracle):
    pass


def make_jobs(tier, seed, build):
    jobs = []
    nmax = 4 if tier == "quick" else 5
    for gname in GRAMMARS:
        g = CORPUS[gname]
        for shape in tok.all_shapes_by_words(nmax, g.decl):
            if True:
                n = len(shape)
                has_dd = "dd" in shape
                # without `--` the strictness clauses still matter for the strict/non_strict grammars
                if not has_dd and (gname not in ("p3", "p4") or n > 3):
                    continue
                if n == 5 and gname in ("g1", "c1"):
                    continue
                jobs.append({"id": "%s:%s" % (gname, ",".join(shape)), "grammar": gname, "shape": shape, "fs": "none"})
    return jobs


def run_job(job, build):
    return run_tok_job(job, build, CORPUS, Oracle())


def finish(results, jobs, build, out, tier, seed, wall):
    nmax = 4 if tier == "quick" else 5
    return finish_tok(PROP, results, jobs, build, out, tier, seed, wall, Oracle(), CORPUS,
                      {"argv_words": "0..=%d (shapes containing `--`; strict grammars also without it, <= 3 words)" % nmax, "grammars": len(GRAMMARS)})
