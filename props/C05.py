"""C05 - every command line item is used exactly once or the run fails.

Three families of jobs:
  lemma:*    ledger lemmas of State::{remove,set_scope,take_flag,take_arg,take_positional_word,
             take_cmd} from an arbitrary symbolic state (props/lemmas.py)
  wrap:*     wrappers hand back the pre-attempt ledger whenever they substitute a default
             (parse_option via optional/many/some/count/last, ParseFallback, ParseFallbackWith)
             with a nondeterministic inner parser
  corpus     run_subparser on the whole grammar corpus (incl. groups, alternatives, adjacent
             groups, subcommands): Ok => every item is Parsed in the final ledger, every value id
             in the result comes from a distinct value item and none is lost, every named item
             carries a declared name
"""
import z3

from mirsym.engine import parse_callee, Unmodelled, ExecError, BoundExceeded, Panic
from mirsym.values import *
from mirsym.models import NONE, SOME, OK, ERR, rd, rda, val_eq
from . import tok, lemmas
from .tokdiff import TokOracle, help_names, assume_not_named, run_tok_job, finish_tok
from .corpus import CORPUS
from .tok import Decl

PROP = "C05"
CORPUS_GRAMMARS = ["g1", "g2", "p1", "p2", "p3", "c1", "c2", "c3", "o1", "o2", "a1", "a2", "a3", "j1", "k1", "k2", "v2", "kc", "k3", "k4", "o3", "a4", "g4", "x1", "x4", "f1", "f3", "k5", "k6", "c5", "c7", "c8"]
LEMMAS = ["remove", "set_scope", "take_flag", "take_arg", "take_arg_adjacent", "take_pos", "take_cmd"]
WRAPS = ["optional", "optional_catch", "many", "some", "count", "last", "fallback", "fallback_with"]
LOOPS = ("many", "some", "count", "last")
LAST_WINS = ("g2", "v2")  # grammars with a last-wins argument
QUICK_SKIP = ("g1", "g2", "p1", "p2", "p3", "c2", "a2", "k2", "k4")  # conventional grammars are C01's daily business; thorough runs all
DECL = Decl("a", "b")


# ------------------------------------------------------------------------------------------------
# corpus oracle

def u32_sources(v, acc):
    """collect the id terms x of every u32_of(x) application inside a value"""
    t = type(v)
    if is_sym(v):
        stack = [v]
        while stack:
            e = stack.pop()
            if z3.is_app(e) and e.decl().name() == "u32_of":
                acc.append(e.arg(0))
            else:
                stack.extend(e.children())
    elif t is SymStr:
        # OsString-valued grammars (conv="string"): the value is the item's text itself
        if is_sym(v.term):
            acc.append(v.term)
    elif t is tuple:
        for x in v:
            u32_sources(x, acc)
    elif t is Seq:
        for x in v.items:
            u32_sources(x, acc)
    elif t is Adt:
        for x in v.fields:
            u32_sources(x, acc)


def declared_names(level, acc_s, acc_l, acc_cmd):
    from spec import grammar as G
    for f in level.fields:
        if isinstance(f, G.Named):
            acc_s.extend(f.shorts)
            acc_l.extend(f.longs)
        elif isinstance(f, G.Group):
            for m in f.members:
                acc_s.extend(m.shorts)
                acc_l.extend(m.longs)
        elif isinstance(f, G.Cmds):
            for c in f.cmds:
                acc_cmd.extend(c.names)
                declared_names(c.level, acc_s, acc_l, acc_cmd)


class CorpusOracle(TokOracle):
    assumptions = [
        "no item is the help flag (C10's subject)",
        "declared names per grammar are listed independently in props/corpus.py (NAMES_EXTRA for the grammars without a full reference semantics)",
    ]

    def assume(self, ex, g, words, parser):
        (hs, hl), (vs, vl), has_version = help_names(ex, parser)
        assume_not_named(ex, words, hs, hl)
        if has_version:
            assume_not_named(ex, words, vs, vl)

    def judge(self, ex, g, words, cls, payload, state, report, out):
        if cls != "ok":
            return
        out["ok_paths"] = out.get("ok_paths", 0) + 1
        # 1. the final ledger marks every item as used
        pres = lemmas.present_vec(ex, state)
        if any(pres):
            report("ok-with-unused-item", words, (cls, payload), ["stderr", "items %r still present" % [i for i, p in enumerate(pres) if p]])
            return
        # 2. provenance of values
        src = []
        u32_sources(payload, src)
        value_ids = []
        cmd_names = g.cmd_names
        for w in words:
            if w.form in ("word", "pos", "short=", "shortv", "long="):
                value_ids.append(w.val)
        ids = [s.get_id() for s in src]
        if len(set(ids)) != len(ids):
            report("value-delivered-twice", words, (cls, payload), ["ok", "each value item feeds one field"])
            return
        allowed = set(v.get_id() for v in value_ids)
        if getattr(g, "conv", "u32") == "string":
            # `any` is handed the whole text of a named item, not just a value
            allowed |= set(w.os.get_id() for w in words if getattr(w, "os", None) is not None and is_sym(w.os))
        if any(i not in allowed for i in ids):
            report("value-not-from-an-item", words, (cls, payload), ["ok", "values come from items"])
            return
        lost = [v for v in value_ids if v.get_id() not in set(ids)]
        if lost and g.name in LAST_WINS:
            # `last()` consumes every occurrence and delivers only the final one: the earlier values are
            # used up by design, not dropped
            lost = []
        if lost:
            # a value item that is not delivered must have been used as a subcommand name
            if not cmd_names:
                report("value-silently-dropped", words, (cls, payload), ["stderr or a value", "%d value items not delivered" % len(lost)])
                return
            for v in lost:
                m = ex.prove(z3.Or(*[v == ex.intern(c) for c in cmd_names]))
                if m is not None:
                    ex.solver.push()
                    ex.solver.add(z3.Not(z3.Or(*[v == ex.intern(c) for c in cmd_names])))
                    report("value-silently-dropped", words, (cls, payload), ["stderr or a value", "undelivered word is not a command name"])
                    ex.solver.pop()
                    return
        # 3. every named item carries a declared name
        for w in words:
            if w.form in ("short", "short=", "shortv"):
                cond = z3.Or(*[w.name == s for s in g.all_shorts]) if g.all_shorts else False
            elif w.form in ("long", "long="):
                cond = z3.Or(*[w.name == ex.intern(l) for l in g.all_longs]) if g.all_longs else False
            else:
                continue
            m = ex.prove(cond)
            if m is not None:
                ex.solver.push()
                ex.solver.add(z3.Not(cond) if cond is not False else True)
                report("unknown-name-accepted", words, (cls, payload), ["stderr", "an item with an undeclared name was accepted"])
                ex.solver.pop()
                return


# ------------------------------------------------------------------------------------------------
# lemma jobs

def named_arg(ex, shorts, longs):
    L = ex.prog.layout
    fl = L.adts["NamedArg"]["fields"]
    d = {"short": Seq(tuple(ord(c) for c in shorts)), "long": Seq(tuple(longs)), "env": Seq(()), "help": NONE}
    return Adt("NamedArg", 0, tuple(d[f] for f in fl))


def expect_ledger(ex, pre, post, consumed, report):
    """post ledger == pre ledger with `consumed` marked Parsed, remaining decreased, scope kept"""
    L = ex.prog.layout
    fp = lemmas.fields_of(ex, pre)
    parsed = Adt("ItemState", L.variant_index("ItemState", "Parsed"), ())
    st = list(fp["item_state"].items)
    for i in consumed:
        st[i] = parsed
    rem = fp["remaining"]
    exp_rem = ex.binop("Sub", rem, len(consumed), "usize") if consumed else rem
    fq = lemmas.fields_of(ex, post)
    eq = val_eq(ex, (Seq(tuple(st)), exp_rem, fp["scope"]), (fq["item_state"], fq["remaining"], fq["scope"]))
    m = ex.prove(eq)
    if m is not None:
        report("ledger mismatch: expected consumed=%r" % (consumed,))
        return False
    m = ex.prove(lemmas.invariant(ex, post))
    if m is not None:
        report("representation invariant broken after the call")
        return False
    return True


def run_lemma_job(job, build):
    prog = tok.load_program(build, "none")
    ex = tok.new_exec(prog, step_budget=200000)
    shape = tuple(job["shape"])
    which = job["which"]
    out = {"stats": None, "cex": [], "inconclusive": [], "samples": [], "nontrivial": 0, "obligations": 0}
    L = prog.layout
    vi = lambda n: L.variant_index("Arg", n)

    def harness(ex):
        st, words, pres, (lo, hi) = lemmas.sym_state(ex, shape, DECL)
        cell = Cell(st, "state")
        ref = Ref(cell, ())
        extra = None
        if which == "remove":
            ix = ex.fresh("ix", 64)
            res = ex.call(parse_callee("State::remove"), [ref, ix])
            extra = ix
        elif which == "set_scope":
            a = ex.fresh("a", 64)
            b = ex.fresh("b", 64)
            n = len(pres)
            ex.assume(z3.And(z3.ULE(a, b), z3.ULE(b, n)))
            res = ex.call(parse_callee("State::set_scope"), [ref, Adt("Range", 0, (a, b))])
            extra = (a, b)
        elif which == "take_flag":
            res = ex.call(parse_callee("State::take_flag"), [ref, Ref(Cell(named_arg(ex, "a", ["alpha"])), ())])
        elif which in ("take_arg", "take_arg_adjacent"):
            res = ex.call(parse_callee("State::take_arg"), [ref, Ref(Cell(named_arg(ex, "b", ["beta"])), ()),
                                                            which == "take_arg_adjacent", Adt("Metavar", 0, ("B",))])
        elif which == "take_pos":
            res = ex.call(parse_callee("State::take_positional_word"), [ref, Adt("Metavar", 0, ("P",))])
        elif which == "take_cmd":
            res = ex.call(parse_callee("State::take_cmd"), [ref, "cmd"])
        else:
            raise ValueError(which)
        return (st, cell.v, words, pres, (lo, hi), res, extra)

    def on_path(ex, r):
        if r.kind != "ok":
            out["cex"].append({"kind": "panic-in-" + which, "shape": list(shape), "info": str(r.info)})
            return
        pre, post, words, pres, (lo, hi), res, extra = r.value
        items = lemmas.fields_of(ex, pre)["items"].items
        n = len(items)
        if ex.pc:
            out["nontrivial"] += 1

        def rep(msg):
            m = ex.model()
            out["cex"].append({"kind": "lemma-" + which, "shape": list(shape), "info": msg, "model": str(m)[:1500]})

        def avail(i):
            return pres[i] and ex.branch(lemmas.in_scope(lo, hi, i), "avail")

        def oracle(e):
            # returns (expected consumed list, expected result description)
            if which == "remove":
                ix = extra
                for i in range(n):
                    if e.branch(ix == i, "ix"):
                        return ([i] if avail(i) else [], None)
                return ([], None)
            if which == "set_scope":
                return (None, None)
            if which == "take_flag":
                for i in range(n):
                    if not avail(i):
                        continue
                    it = items[i]
                    if it.var == vi("Short") and e.branch(it.fields[0] == ord("a"), "nm"):
                        return ([i], True)
                    if it.var == vi("Long") and e.branch(it.fields[0].term == e.intern("alpha"), "nm"):
                        return ([i], True)
                return ([], False)
            if which in ("take_arg", "take_arg_adjacent"):
                adj = which == "take_arg_adjacent"
                for i in range(n):
                    if not avail(i):
                        continue
                    it = items[i]
                    hit = False
                    if it.var == vi("Short") and e.branch(it.fields[0] == ord("b"), "nm"):
                        hit = True
                    elif it.var == vi("Long") and e.branch(it.fields[0].term == e.intern("beta"), "nm"):
                        hit = True
                    if hit and adj and not it.fields[1]:
                        hit = False
                    if hit:
                        j = i + 1
                        if j < n and avail(j) and items[j].var in (vi("Word"), vi("ArgWord")):
                            return ([i, j], ("some", items[j].fields[0]))
                        return ([], ("err", i))
                return ([], ("none",))
            if which == "take_pos":
                for i in range(n):
                    if not avail(i):
                        continue
                    if items[i].var in (vi("Word"), vi("PosWord")):
                        return ([i], ("ok", i, items[i].var == vi("PosWord"), items[i].fields[0]))
                return ([], ("err",))
            if which == "take_cmd":
                for i in range(n):
                    if not avail(i):
                        continue
                    it = items[i]
                    w = None
                    if it.var == vi("Word"):
                        w = it.fields[0]
                    elif it.var == vi("Short"):
                        w = it.fields[2]
                    elif it.var == vi("Long") and not it.fields[1]:
                        w = it.fields[2]
                    if w is not None and e.branch(e.str_term(w) == e.intern("cmd"), "cmd"):
                        return ([i], True)
                    return ([], False)
                return ([], False)

        def leaf(e, exp):
            out["obligations"] += 1
            consumed, want = exp
            if which == "set_scope":
                a, b = extra
                f = lemmas.fields_of(e, post)
                cnt = z3.BitVecVal(0, 64)
                for i in range(n):
                    if pres[i]:
                        cnt = cnt + z3.If(z3.And(z3.ULE(a, i), z3.ULT(i, b)), z3.BitVecVal(1, 64), z3.BitVecVal(0, 64))
                fp = lemmas.fields_of(e, pre)
                eq = val_eq(e, (fp["item_state"], cnt, Adt("Range", 0, (a, b))), (f["item_state"], f["remaining"], f["scope"]))
                if e.prove(eq) is not None:
                    rep("set_scope: remaining is not the number of present items in the new scope, or the ledger changed")
                return
            if not expect_ledger(e, pre, post, consumed, rep):
                return
            # result value
            if which == "take_flag" or which == "take_cmd":
                if res is not want and e.prove(val_eq(e, res, want)) is not None:
                    rep("%s returned %r, expected %r" % (which, res, want))
            elif which.startswith("take_arg"):
                if want[0] == "none":
                    ok = res.var == 0 and res.fields[0].var == 0
                elif want[0] == "err":
                    ok = res.var == 1 and lemmas.msg_name(e, res) == "NoArgument"
                    if ok:
                        ok = e.prove(val_eq(e, res.fields[0].fields[0].fields[0], want[1])) is None
                else:
                    ok = res.var == 0 and res.fields[0].var == 1 and e.prove(val_eq(e, res.fields[0].fields[0], want[1])) is None
                if not ok:
                    rep("take_arg returned %r, expected %r" % (res, want))
            elif which == "take_pos":
                if want[0] == "err":
                    ok = res.var == 1 and lemmas.msg_name(e, res) == "Missing"
                else:
                    ok = res.var == 0 and e.prove(val_eq(e, res.fields[0], (want[1], want[2], want[3]))) is None
                if not ok:
                    rep("take_positional_word returned %r, expected %r" % (res, want))
        ex.sub_explore(oracle, leaf)
        if len(out["samples"]) < 1:
            out["samples"].append({"lemma": which, "shape": list(shape), "path_condition": [str(c)[:120] for c in ex.pc[:6]]})

    try:
        ex.explore(harness, on_path, max_paths=100000)
    except Unmodelled as e:
        out["inconclusive"].append("UNMODELLED %s" % e)
    except BoundExceeded as e:
        out["inconclusive"].append("BOUND %s" % e)
    except ExecError as e:
        out["inconclusive"].append("EXEC-ERROR %s" % e)
    out["stats"] = dict(ex.stats)
    out["models_used"] = dict(ex.model_hits)
    out["fn_hits"] = dict(ex.fn_hits)
    return out


# ------------------------------------------------------------------------------------------------
# wrapper jobs: defaulting wrappers restore the pre-attempt ledger

def mk_wrapper(ex, which):
    L = ex.prog.layout

    def struct(name, **kw):
        fl = L.adts[name]["fields"]
        return Adt(name, 0, tuple(kw[f] for f in fl))
    nd = lemmas.NONDET
    ph = Adt("PhantomData", 0, ())
    if which == "optional":
        return struct("ParseOptional", inner=nd, catch=False)
    if which == "optional_catch":
        return struct("ParseOptional", inner=nd, catch=True)
    if which == "many":
        return struct("ParseMany", inner=nd, catch=False)
    if which == "some":
        return struct("ParseSome", inner=nd, message="need some", catch=False)
    if which == "count":
        return struct("ParseCount", inner=nd, ctx=ph)
    if which == "last":
        return struct("ParseLast", inner=nd)
    if which == "fallback":
        return struct("ParseFallback", inner=nd, value=4242, value_str="")
    if which == "fallback_with":
        return struct("ParseFallbackWith", inner=nd, inner_res=ph, fallback=Opaque("pyfn", lambda ex_: OK(4242)), value_str="", err=ph)
    raise ValueError(which)


def run_wrap_job(job, build):
    prog = tok.load_program(build, "none")
    models = dict(tok.TOK_MODELS)
    lemmas.install_nondet(models, lemmas.REPRESENTATIVE if job["which"] in LOOPS else None)
    from mirsym.engine import Exec
    ex = Exec(prog, models, step_budget=400000)
    ex.intern_hooks = (tok.intern_hook,)
    for s in ("", "--", "-"):
        ex.intern(s)
    shape = tuple(job["shape"])
    which = job["which"]
    out = {"stats": None, "cex": [], "inconclusive": [], "samples": [], "nontrivial": 0, "obligations": 0}

    def harness(ex):
        st, words, pres, (lo, hi) = lemmas.sym_state(ex, shape, DECL, with_conflict=False)
        cell = Cell(st, "state")
        w = mk_wrapper(ex, which)
        res = ex.call(parse_callee("<P as Parser<T>>::eval"), [Ref(Cell(w, "wrapper"), ()), Ref(cell, ())])
        return (st, cell.v, res)

    def on_path(ex, r):
        if r.kind != "ok":
            out["cex"].append({"kind": "panic-in-" + which, "shape": list(shape), "info": str(r.info)})
            return
        pre, post, res = r.value
        inner = [x for x in ex.notes if x[0] == "inner"]
        out["obligations"] += 1
        if ex.pc:
            out["nontrivial"] += 1

        def rep(msg):
            out["cex"].append({"kind": "wrap-" + which, "shape": list(shape), "info": msg,
                               "inner_calls": [(c[2], c[3]) for c in inner], "result": repr(res)[:300]})
        # the invariant survives
        if ex.prove(lemmas.invariant(ex, post)) is not None:
            rep("representation invariant broken")
            return
        last = inner[-1]
        _, ipre, consumed, kind, ires, ipost = last
        defaulting_ok = (kind == "Missing" and not consumed) or (kind != "Missing" and kind in lemmas.CATCHABLE) or which == "optional_catch"
        if which in ("fallback", "fallback_with"):
            defaulting_ok = kind in lemmas.CATCHABLE
        if kind == "ok":
            return  # success paths are judged by the corpus differential checks
        is_err = res.ty == "Result" and res.var == 1
        if defaulting_ok:
            # the attempt that failed must leave no trace: ledger equals the ledger before *that* attempt
            if is_err:
                if which in ("some", "last") and lemmas.msg_name(ex, res) in ("ParseSome", kind):
                    return  # `some`/`last` with nothing collected legitimately fail
                rep("catchable failure of the inner parser (%s, consumed %r) was not turned into a default" % (kind, consumed))
                return
            if ex.prove(lemmas.ledger_equal(ex, ipre, post)) is not None:
                rep("default substituted but the ledger differs from the pre-attempt ledger (inner consumed %r)" % (consumed,))
        else:
            if not is_err:
                rep("final failure of the inner parser (%s, consumed %r) was masked by a default" % (kind, consumed))
            elif lemmas.msg_name(ex, res) != kind:
                rep("inner failure %s replaced by %s" % (kind, lemmas.msg_name(ex, res)))

    try:
        ex.explore(harness, on_path, max_paths=300000)
    except Unmodelled as e:
        out["inconclusive"].append("UNMODELLED %s" % e)
    except BoundExceeded as e:
        out["inconclusive"].append("BOUND %s [%s]" % (e, which))
    except ExecError as e:
        out["inconclusive"].append("EXEC-ERROR %s" % e)
    out["stats"] = dict(ex.stats)
    out["models_used"] = dict(ex.model_hits)
    out["fn_hits"] = dict(ex.fn_hits)
    return out


# ------------------------------------------------------------------------------------------------

def lemma_shapes(n):
    forms = ["word", "short", "long", "short=", "long=", "dd"]
    out = []
    for sh in tok.all_shapes(n, DECL):
        out.append(sh)
    return out


def make_jobs(tier, seed, build):
    jobs = []
    nl = 2 if tier == "quick" else 3
    for which in LEMMAS:
        for n in range(0, nl + 1):
            for sh in tok.all_shapes(n, DECL):
                jobs.append({"id": "lemma:%s:%s" % (which, ",".join(sh)), "kind": "lemma", "which": which, "shape": sh})
    for which in WRAPS:
        nw = (1 if tier == "quick" else 2) if which in LOOPS else (2 if tier == "quick" else 3)
        for n in range(0, nw + 1):
            for sh in tok.all_shapes(n, DECL, allow_dd=False):
                if any(f in ("short=", "shortv", "long=") for f in sh):
                    continue  # the wrappers never look at item contents: plain items suffice
                jobs.append({"id": "wrap:%s:%s" % (which, ",".join(sh)), "kind": "wrap", "which": which, "shape": sh})
    nc = 3 if tier == "quick" else 4
    for gname in CORPUS_GRAMMARS:
        g = CORPUS[gname]
        if tier == "quick" and gname in QUICK_SKIP:
            continue
        for sh in tok.all_shapes_by_words(nc, g.decl, full_upto=3):
            jobs.append({"id": "corpus:%s:%s" % (gname, ",".join(sh)), "kind": "corpus", "grammar": gname, "shape": sh, "fs": "none"})
    return jobs


def run_job(job, build):
    if job["kind"] == "lemma":
        return run_lemma_job(job, build)
    if job["kind"] == "wrap":
        return run_wrap_job(job, build)
    return run_tok_job(job, build, CORPUS, CorpusOracle())


def finish(results, jobs, build, out, tier, seed, wall):
    byid = {j["id"]: j for j in jobs}
    corpus_res = [r for r in results if byid.get(r["job"], {}).get("kind") == "corpus"]
    other = [r for r in results if byid.get(r["job"], {}).get("kind") != "corpus"]
    cj = [j for j in jobs if j["kind"] == "corpus"]
    nc = 3 if tier == "quick" else 4
    ev = finish_tok(PROP, corpus_res, cj, build, out, tier, seed, wall, CorpusOracle(), CORPUS,
                    {"corpus_argv_words": "0..=%d (up to twice as many items)" % nc, "lemma_items": "0..=%d" % (2 if tier == "quick" else 3),
                     "wrapper_items": "loops 0..=%d (6 representative inner failures), others 0..=%d (all 17 Message variants)" % ((1, 2) if tier == "quick" else (2, 3)),
                     "grammars": len(CORPUS_GRAMMARS)})
    from . import framework as fw
    st = fw.merge_stats(other)
    for r in other:
        if r.get("error"):
            out.inconc("job %s crashed: %s" % (r["job"], r["error"]))
        for w in r.get("inconclusive", []):
            out.inconc("%s: %s" % (r["job"], w))
        for c in r.get("cex", []):
            # lemma counterexamples are states, not argv: they are reported with the solver model;
            # there is no native replay for an arbitrary internal state, so they are confirmed by
            # re-running the concrete model through mirsym only => treated as violations of the lemma
            out.violation("%s:%s:%s" % (c["kind"], ",".join(c["shape"]), c["info"][:80]),
                          "%s on shape %s: %s" % (c["kind"], c["shape"], c["info"]), c)
    cov = ev["coverage"]
    cov["lemma_jobs"] = len([j for j in jobs if j["kind"] == "lemma"])
    cov["wrapper_jobs"] = len([j for j in jobs if j["kind"] == "wrap"])
    cov["lemma_paths"] = st["paths"]
    cov["lemma_queries"] = st["queries"]
    cov["lemma_obligations"] = sum(r.get("obligations", 0) for r in other)
    cov["evaluations"] += st["queries"]
    cov["distinct_nontrivial"] += sum(r.get("nontrivial", 0) for r in other)
    cov["states"] += st["paths"]
    cov["transitions"] += st["decisions"]
    cov["solver_time_s"] = round(cov["solver_time_s"] + st["solver_s"], 2)
    cov["lemmas"] = LEMMAS
    cov["wrappers"] = WRAPS
    cov["ok_paths"] = sum(r.get("ok_paths", 0) for r in corpus_res)
    for s in [r["samples"][0] for r in other if r.get("samples")][:4]:
        cov["samples"].append(s)
    ev["assumptions"] += [
        "lemma jobs start from any State satisfying the representation invariant (stated in props/lemmas.py); the invariant is re-proved after every mutator",
        "wrapper jobs: the inner parser is a nondeterministic model that may consume any subset of present in-scope items and return Ok or any Message variant",
        "lemma/wrapper counterexamples are internal states and cannot be replayed through the public API; they are reported with the solver model",
    ]
    return ev
