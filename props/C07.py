"""C07 - alternatives are exclusive and chosen by what the user typed.

Grammars a1 (bare), a2 (optional), a3 (many) over the three alternatives
    A: required flag -a/--alpha        B: argument -b/--beta V        C: group -x/--ex X, -y/--why Y
next to a switch -s/--sw.  Reference semantics written from the documentation:
  * bare / optional choice: items of exactly one alternative, forming one complete instance of
    it => that alternative's value; items of two alternatives => failure; none => failure
    (bare) or None (optional)
  * repeated choice: every complete instance is a value, instances are ordered by their leftmost
    item (command line order); a group needs as many X as Y occurrences (k-th with k-th)
  * anything else (unknown names, stray words, invalid values, incomplete instance) => failure
On a conflict between two complete alternatives the stored conflict (State::conflict via
error::check_conflicts, executed from MIR on the final state) must name an item of each.
"""
import z3

from mirsym.engine import parse_callee, Infeasible
from mirsym.values import *
from mirsym.models import val_eq, rda
from spec import grammar as G
from . import tok
from .tokdiff import TokOracle, help_names, assume_not_named, run_tok_job, finish_tok, spec_env
from .corpus import CORPUS

PROP = "C07"
GRAMMARS = ["a1", "a2", "a3", "a4", "a5", "a6", "a7"]

F_A = G.Named("req_flag", "a", ["alpha"])
F_B = G.Named("arg", "b", ["beta"], arity="req")
F_X = G.Named("arg", "x", ["ex"], arity="req")
F_Y = G.Named("arg", "y", ["why"], arity="req")
F_S = G.Named("switch", "s", ["sw"])


def alt_val(name, *vals):
    idx = {"A": 0, "B": 1, "C": 2}[name]
    return Adt("Alt", idx, tuple(vals))


F3 = [G.Named("req_flag", "a", ["alpha"]), G.Named("req_flag", "b", ["beta"]), G.Named("req_flag", "c", ["gamma"])]


def spec_flag3(ex, env, items, cmd_first=False):
    """a4: repeated choice between three flags: one value per occurrence, in command line order
    (a5: the first alternative is the adjacent command `go`, a bare word, instead of the flag -a)"""
    n = len(items)
    vals = []
    sw = 0
    for i, it in enumerate(items):
        if it.kind == "dd":
            if i + 1 < n:
                return ("fail", "positional data", None)
            continue
        if cmd_first and it.kind == "word":
            if ex.branch(it.val == env.intern("go"), "c07-go"):
                vals.append(Adt("Flag3", 0, ()))
                continue
            return ("fail", "stray word", None)
        if it.kind not in ("short", "long"):
            return ("fail", "unclaimed item", None)
        hit = None
        for k, f in enumerate(F3):
            if cmd_first and k == 0:
                continue
            if G.name_match(ex, env, f, it):
                hit = k
                break
        if hit is not None:
            if it.adj:
                return ("fail", "flag with attached value", None)
            vals.append(Adt("Flag3", hit, ()))
            continue
        if G.name_match(ex, env, F_S, it):
            if it.adj:
                return ("fail", "flag with attached value", None)
            sw += 1
            continue
        return ("fail", "unknown name", None)
    if sw > 1:
        return ("fail", "switch twice", None)
    if cmd_first:
        return ("ok", (sw == 1, Seq(tuple(vals))))  # a5 declares the switch first (commands go last)
    return ("ok", (Seq(tuple(vals)), sw == 1))


def spec_alt(ex, env, mode, items):
    """returns ('ok', value) | ('fail', why, info)"""
    n = len(items)
    claimed = [False] * n
    dd = n
    for i in range(n):
        if items[i].kind == "dd":
            dd = i
            claimed[i] = True
            break
    occ = {"a": [], "b": [], "x": [], "y": [], "s": []}
    for key, f in (("a", F_A), ("b", F_B), ("x", F_X), ("y", F_Y), ("s", F_S)):
        for i in range(dd):
            it = items[i]
            if claimed[i] or it.kind not in ("short", "long"):
                continue
            if G.name_match(ex, env, f, it):
                if f.kind == "arg":
                    j = i + 1
                    if j >= dd or items[j].kind not in ("word", "argword") or claimed[j]:
                        return ("fail", "argument without value", None)
                    claimed[i] = claimed[j] = True
                    occ[key].append((i, items[j].val))
                else:
                    claimed[i] = True
                    occ[key].append((i, None))
    for i in range(n):
        if not claimed[i]:
            return ("fail", "unclaimed item", None)
    if len(occ["s"]) > 1:
        return ("fail", "switch twice", None)
    sval = len(occ["s"]) == 1

    def conv(v):
        if not ex.branch(env.valid(v), "spec-valid"):
            raise G.Fail("invalid value")
        return env.value(v)
    try:
        if mode in ("bare", "optional"):
            present = [k for k in ("A", "B", "C") if (occ["a"] if k == "A" else occ["b"] if k == "B" else occ["x"] + occ["y"])]
            if len(present) == 0:
                if mode == "bare":
                    return ("fail", "no alternative", None)
                return ("ok", (G.NONE, sval))
            if len(present) >= 2:
                return ("fail", "conflict", present)
            k = present[0]
            if k == "A":
                if len(occ["a"]) != 1:
                    return ("fail", "flag twice", None)
                v = alt_val("A")
            elif k == "B":
                if len(occ["b"]) != 1:
                    return ("fail", "argument twice", None)
                v = alt_val("B", conv(occ["b"][0][1]))
            else:
                if len(occ["x"]) != 1 or len(occ["y"]) != 1:
                    return ("fail", "incomplete or repeated group", None)
                v = alt_val("C", conv(occ["x"][0][1]), conv(occ["y"][0][1]))
            return ("ok", ((G.SOME(v) if mode == "optional" else v), sval))
        # many
        if len(occ["x"]) != len(occ["y"]):
            return ("fail", "incomplete group", None)
        inst = []
        for i, _ in occ["a"]:
            inst.append((i, alt_val("A")))
        for i, v in occ["b"]:
            inst.append((i, alt_val("B", conv(v))))
        for (i, vx), (j, vy) in zip(occ["x"], occ["y"]):
            inst.append((min(i, j), alt_val("C", conv(vx), conv(vy))))
        inst.sort(key=lambda t: t[0])
        return ("ok", (Seq(tuple(v for _, v in inst)), sval))
    except G.Fail as f:
        return ("fail", f.why, None)


class Oracle(TokOracle):
    assumptions = [
        "no item is the help flag",
        "the three alternatives and their names are those of harness grammars a1/a2/a3 (props/C07.py states them independently)",
    ]

    def assume(self, ex, g, words, parser):
        (hs, hl), (vs, vl), has_version = help_names(ex, parser)
        assume_not_named(ex, words, hs, hl)

    def judge(self, ex, g, words, cls, payload, state, report, out):
        items = G.items_of_words(words)
        env = spec_env(ex)
        mode = {"a1": "bare", "a2": "optional", "a3": "many", "a4": "flag3", "a5": "flag3c", "a6": "bare", "a7": "many"}[g.name]

        def leaf(ex2, sres):
            out["spec_leaves"] += 1
            if sres[0] == "ok":
                if cls != "ok":
                    report("accepts-sentence", words, (cls, payload), ["ok", repr(sres[1])])
                    return
                eq = val_eq(ex2, payload, sres[1])
                if ex2.prove(eq) is not None:
                    ex2.solver.push()
                    ex2.solver.add(z3.Not(eq))
                    report("value-differs", words, (cls, payload), ["ok", repr(sres[1])])
                    ex2.solver.pop()
                return
            if cls != "stderr":
                report("rejects-non-sentence", words, (cls, payload), ["stderr", sres[1]])
                return
            if sres[1] == "conflict":
                out["conflicts"] = out.get("conflicts", 0) + 1
        ex.sub_explore(lambda e: spec_flag3(e, env, items, mode == "flag3c") if mode in ("flag3", "flag3c") else spec_alt(e, env, mode, items), leaf)


def make_jobs(tier, seed, build):
    jobs = []
    nmax = 3 if tier == "quick" else 4
    for gname in GRAMMARS:
        g = CORPUS[gname]
        for shape in tok.all_shapes_by_words(nmax + (1 if gname == "a4" and tier != "quick" else 0), g.decl, full_upto=3):
            if len(shape) >= 4 and ("dd" in shape or shape.count("word") > 1):
                continue
            jobs.append({"id": "%s:%s" % (gname, ",".join(shape)), "grammar": gname, "shape": shape, "fs": "none"})
    return jobs


def run_job(job, build):
    return run_tok_job(job, build, CORPUS, Oracle())


def finish(results, jobs, build, out, tier, seed, wall):
    nmax = 3 if tier == "quick" else 4
    ev = finish_tok(PROP, results, jobs, build, out, tier, seed, wall, Oracle(), CORPUS,
                    {"argv_words": "0..=%d (up to twice as many items; 4+ words: shapes without `--` and with at most one plain word)" % nmax, "grammars": GRAMMARS, "alternatives": 3})
    ev["coverage"]["conflict_paths"] = sum(r.get("conflicts", 0) for r in results)
    return ev
