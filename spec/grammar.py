"""Reference semantics of the *conventional fragment* of bpaf grammars, written from the
documentation (README / crate docs) and the text of properties C01, C03, C05-C10 - not from the
implementation.  It is a set-based definition:

  * a named occurrence is any Short/Long item left of `--` whose name is one of the item's names
  * an argument occurrence owns the item right after it, which must be a plain word or an
    attached value (`name=value`); an `adjacent` argument only accepts the attached spellings
  * arities: switch/optional/fallback at most once, required exactly once, many/count any number,
    some/last at least once
  * every other word is positional data: words left of `--` and everything right of it, in
    order, distributed over the positional items in declaration order; strict positionals take
    only items from the right of `--`, non_strict only from its left
  * a subcommand is entered by the first item the level did not claim, which must be a plain
    word equal to the command's name or alias; everything to its right belongs to the subcommand
  * anything unclaimed, any arity violation, any value that fails conversion or a guard =>
    failure (stderr); otherwise the value is assembled field by field

The functions work on symbolic items (concrete item kinds, symbolic names / values) and fork
through `ex.branch`, so they are run under Exec.sub_explore on top of an implementation path.
"""
import z3
from mirsym.values import Adt, Seq, SymStr, Opaque

NONE = Adt("Option", 0, ())


def SOME(v):
    return Adt("Option", 1, (v,))


class Named:
    def __init__(self, kind, shorts="", longs=(), arity=None, adjacent=False, env=None, present=True, absent=False,
                 guard=False, default=None, catch=False):
        self.kind = kind  # 'switch' | 'req_flag' | 'count' | 'arg' | 'flagmany'
        self.shorts = [ord(c) for c in shorts]
        self.longs = list(longs)
        self.arity = arity  # args: 'req' | 'opt' | 'many' | 'some' | 'last' | 'fallback'
        self.adjacent = adjacent
        self.env = env
        self.present = present
        self.absent = absent
        self.guard = guard
        self.default = default


class Pos:
    def __init__(self, arity="req", strict=None, default=None, guard=False):
        self.arity = arity  # 'req' | 'opt' | 'many' | 'some' | 'fallback'
        self.strict = strict  # None | 'strict' | 'non_strict'
        self.default = default
        self.guard = guard


class Group:
    """sequential group of *required* named members under `optional` / `many`:
    absent as a whole, or complete (k-th occurrence of every member forms the k-th value)"""

    def __init__(self, members, arity):
        self.members = members  # Named with kind 'arg' (arity req) or 'req_flag'
        self.arity = arity  # 'opt' | 'many'
        self.make = tuple


class Cmd:
    def __init__(self, names, level, shorts=""):
        self.names = list(names)
        self.shorts = [c for c in shorts]
        self.level = level


class Cmds:
    """a choice between subcommands as one field; `optional` => field may be absent"""

    def __init__(self, cmds, tag=None, optional=False, alt=None, alt_tag=None):
        self.cmds = cmds
        self.tag = tag
        self.optional = optional
        # `alt`: a repeated positional offered as the other branch of the choice (taken when no
        # command is entered); `alt_tag` wraps its value
        self.alt = alt
        self.alt_tag = alt_tag


class Level:
    def __init__(self, fields, make=None):
        self.fields = fields
        self.make = make or (lambda vals: tuple(vals) if len(vals) != 1 else vals[0])


class Outside(Exception):
    """the input is outside the quantifier of the property (behaviour not fixed by the docs)"""


class Fail(Exception):
    def __init__(self, why):
        Exception.__init__(self, why)
        self.why = why


class Item:
    """spec-side view of one token"""
    __slots__ = ("kind", "name", "adj", "val")

    def __init__(self, kind, name=None, adj=False, val=None):
        self.kind = kind  # 'short' 'long' 'argword' 'word' 'posword' 'dd'
        self.name = name
        self.adj = adj
        self.val = val


def items_of_words(words):
    out = []
    for w in words:
        f = w.form
        if f == "word":
            out.append(Item("word", val=w.val))
        elif f == "pos":
            out.append(Item("posword", val=w.val))
        elif f == "dd":
            out.append(Item("dd"))
        elif f == "short":
            out.append(Item("short", w.name, False))
        elif f == "short=":
            out.append(Item("short", w.name, True))
            out.append(Item("argword", val=w.val))
        elif f == "shortv":
            out.append(Item("short", w.name, True))
            out.append(Item("word", val=w.val))
        elif f == "long":
            out.append(Item("long", w.name, False))
        elif f == "long=":
            out.append(Item("long", w.name, True))
            out.append(Item("argword", val=w.val))
    return out


class Env:
    """hooks supplied by the property: validity / guard / environment predicates"""

    def __init__(self, valid, guard=None, env_set=None, env_val=None, intern=None, value=None):
        self.valid = valid
        self.value = value
        self.lenient = None  # list => validity failures are recorded instead of failing
        self.guard = guard
        self.env_set = env_set
        self.env_val = env_val
        self.intern = intern


def name_match(ex, env, f, it):
    if it.kind == "short":
        if not f.shorts:
            return False
        c = z3.Or(*[it.name == s for s in f.shorts])
    elif it.kind == "long":
        if not f.longs:
            return False
        c = z3.Or(*[it.name == env.intern(s) for s in f.longs])
    else:
        return False
    return ex.branch(c, "spec-name")


def conv(ex, env, f, vid, idx=None):
    """typed value of id `vid` (taken from item `idx`) for field f or Fail"""
    if not ex.branch(env.valid(vid), "spec-valid"):
        if env.lenient is not None:
            env.lenient.append((idx, "conversion", vid))
            return env.value(vid)
        raise Fail("invalid value")
    v = env.value(vid)
    g = getattr(f, "guard", None)
    if g:
        # the corpus' guards and parse steps all mean "value >= 10"
        if not ex.branch(z3.UGE(v, 10), "spec-guard"):
            if env.lenient is not None:
                env.lenient.append((idx, "parse" if g == "parse" else "guard", vid))
                return v
            raise Fail("guard failed")
    return v


def eval_level(ex, env, level, items, lo, hi, enclosing=()):
    """returns the value the items[lo:hi] denote under `level` or raises Fail"""
    n = len(items)
    # an enclosing level's option written to the right of the subcommand name: not fixed by the docs
    for i in range(lo, hi):
        if items[i].kind == "dd":
            break
        if items[i].kind in ("short", "long"):
            for f in enclosing:
                if name_match(ex, env, f, items[i]):
                    raise Outside()
    claimed = [False] * n
    dd = None
    for i in range(lo, hi):
        if items[i].kind in ("dd",):
            dd = i
            claimed[i] = True  # the separator itself is never data
            break
    named_hi = dd if dd is not None else hi
    vals = {}
    # -- named items --------------------------------------------------------------------------
    for fi, f in enumerate(level.fields):
        if isinstance(f, Group):
            per = []
            for mbr in f.members:
                got = []
                for i in range(lo, named_hi):
                    it = items[i]
                    if claimed[i] or it.kind not in ("short", "long"):
                        continue
                    if name_match(ex, env, mbr, it):
                        if mbr.kind == "req_flag":
                            claimed[i] = True
                            got.append(None)
                            continue
                        j = i + 1
                        if j >= named_hi or items[j].kind not in ("word", "argword") or claimed[j]:
                            raise Fail("argument without a value")
                        claimed[i] = True
                        claimed[j] = True
                        got.append((j, items[j].val))
                per.append(got)
            k = len(per[0])
            if any(len(g) != k for g in per):
                raise Fail("incomplete group")
            if f.arity == "opt" and k > 1:
                raise Fail("group given twice")
            tuples = []
            for r in range(k):
                tuples.append(f.make([mbr.present if mbr.kind == "req_flag" else conv(ex, env, mbr, per[mi][r][1], per[mi][r][0])
                                      for mi, mbr in enumerate(f.members)]))
            if f.arity == "opt":
                vals[fi] = SOME(tuples[0]) if k == 1 else NONE
            else:
                vals[fi] = Seq(tuple(tuples))
            continue
        if not isinstance(f, Named):
            continue
        occ = []
        for i in range(lo, named_hi):
            it = items[i]
            if claimed[i] or it.kind not in ("short", "long"):
                continue
            if name_match(ex, env, f, it):
                occ.append(i)
        if f.kind in ("switch", "req_flag", "count", "flagmany"):
            for i in occ:
                claimed[i] = True
            k = len(occ)
            envset = False
            if f.env is not None and k == 0:
                envset = ex.branch(env.env_set(env.intern(f.env)), "spec-env")
            if f.kind == "switch":
                if k > 1:
                    raise Fail("flag given twice")
                vals[fi] = (k == 1) or envset
            elif f.kind == "req_flag":
                if k > 1:
                    raise Fail("flag given twice")
                if k == 0 and not envset:
                    raise Fail("required flag missing")
                vals[fi] = f.present
            elif f.kind == "count":
                vals[fi] = k if k > 0 else (1 if envset else 0)
            else:  # flagmany: req_flag(..).many()
                vals[fi] = Seq(tuple(f.present for _ in occ))
            continue
        # arguments
        got = []
        for i in occ:
            it = items[i]
            if f.adjacent and not it.adj:
                # `--name value` spelling of an adjacent-only argument: name stays unclaimed
                continue
            j = i + 1
            if j >= named_hi or items[j].kind not in ("word", "argword") or claimed[j]:
                raise Fail("argument without a value")
            claimed[i] = True
            claimed[j] = True
            got.append((j, items[j].val))
        a = f.arity
        if a in ("req", "opt", "fallback") and len(got) > 1:
            raise Fail("single-use argument given twice")
        from_env = None
        if not got and f.env is not None:
            if ex.branch(env.env_set(env.intern(f.env)), "spec-env"):
                from_env = env.env_val(env.intern(f.env))
        if a == "req":
            if got:
                vals[fi] = conv(ex, env, f, got[0][1], got[0][0])
            elif from_env is not None:
                vals[fi] = conv(ex, env, f, from_env)
            else:
                raise Fail("required argument missing")
        elif a == "opt":
            if got:
                vals[fi] = SOME(conv(ex, env, f, got[0][1], got[0][0]))
            elif from_env is not None:
                vals[fi] = SOME(conv(ex, env, f, from_env))
            else:
                vals[fi] = NONE
        elif a == "fallback":
            if got:
                vals[fi] = conv(ex, env, f, got[0][1], got[0][0])
            elif from_env is not None:
                vals[fi] = conv(ex, env, f, from_env)
            else:
                vals[fi] = f.default
        elif a in ("many", "some"):
            vs = [conv(ex, env, f, g[1], g[0]) for g in got]
            if not got and from_env is not None:
                vs = [conv(ex, env, f, from_env)]
            if a == "some" and not vs:
                raise Fail("some: nothing given")
            vals[fi] = Seq(tuple(vs))
        elif a == "last":
            vs = [conv(ex, env, f, g[1], g[0]) for g in got]
            if not got and from_env is not None:
                vs = [conv(ex, env, f, from_env)]
            if not vs:
                raise Fail("last: nothing given")
            vals[fi] = vs[-1]
        else:
            raise ValueError(a)
    # -- subcommands: first unclaimed item --------------------------------------------------------
    cmd_fields = [(fi, f) for fi, f in enumerate(level.fields) if isinstance(f, Cmds)]
    alt_pending = None
    if cmd_fields:
        if len(cmd_fields) > 1:
            raise ValueError("one command choice per level")
        fi, cf = cmd_fields[0]
        first = None
        for i in range(lo, hi):
            if not claimed[i]:
                first = i
                break
        entered = None
        if first is not None and items[first].kind == "word":
            for ci, cmd in enumerate(cf.cmds):
                if ex.branch(z3.Or(*[items[first].val == env.intern(nm) for nm in cmd.names]), "spec-cmd"):
                    entered = (ci, cmd)
                    break
        if entered is None:
            if cf.alt is not None:
                alt_pending = (fi, cf)
            elif cf.optional:
                vals[fi] = NONE
            else:
                raise Fail("no command")
        else:
            ci, cmd = entered
            claimed[first] = True
            # an enclosing-level item to the right of the command name is outside the quantifier:
            # callers assume it away (see `enclosing_right_of_cmd`)
            v = eval_level(ex, env, cmd.level, items, first + 1, hi,
                           tuple(enclosing) + tuple(f for f in level.fields if isinstance(f, Named)))
            for i in range(first + 1, hi):
                claimed[i] = True
            if cf.tag is not None:
                v = cf.tag(ci, v)
            vals[fi] = SOME(v) if cf.optional else v
    # -- positionals ------------------------------------------------------------------------------
    stream = [i for i in range(lo, hi) if not claimed[i] and items[i].kind in ("word", "posword")]
    p = 0
    if alt_pending is not None:
        fi, cf = alt_pending
        if cf.alt.arity != "many" or any(isinstance(f, Pos) for f in level.fields):
            raise ValueError("alt: one repeated positional, no other positional at this level")
        vs = []
        while p < len(stream):
            claimed[stream[p]] = True
            vs.append(conv(ex, env, cf.alt, items[stream[p]].val, stream[p]))
            p += 1
        v = Seq(tuple(vs))
        vals[fi] = cf.alt_tag(v) if cf.alt_tag else v
    for fi, f in enumerate(level.fields):
        if not isinstance(f, Pos):
            continue

        def fits(i):
            if f.strict == "strict":
                return items[i].kind == "posword"
            if f.strict == "non_strict":
                return items[i].kind == "word"
            return True
        if f.arity == "req":
            if p >= len(stream):
                raise Fail("positional missing")
            if not fits(stream[p]):
                raise Fail("positional on the wrong side of --")
            claimed[stream[p]] = True
            vals[fi] = conv(ex, env, f, items[stream[p]].val, stream[p])
            p += 1
        elif f.arity in ("opt", "fallback"):
            if p < len(stream) and fits(stream[p]):
                claimed[stream[p]] = True
                v = conv(ex, env, f, items[stream[p]].val, stream[p])
                vals[fi] = SOME(v) if f.arity == "opt" else v
                p += 1
            elif p < len(stream) and f.strict == "strict":
                # a word is there but on the wrong side: documented as an error, not as absence
                raise Fail("positional on the wrong side of --")
            else:
                vals[fi] = NONE if f.arity == "opt" else f.default
        elif f.arity in ("many", "some"):
            vs = []
            while p < len(stream) and fits(stream[p]):
                claimed[stream[p]] = True
                vs.append(conv(ex, env, f, items[stream[p]].val, stream[p]))
                p += 1
            if p < len(stream) and f.strict == "strict":
                raise Fail("positional on the wrong side of --")
            if f.arity == "some" and not vs:
                raise Fail("some positional: nothing given")
            vals[fi] = Seq(tuple(vs))
        else:
            raise ValueError(f.arity)
    for i in range(lo, hi):
        if not claimed[i]:
            raise Fail("unclaimed item %d (%s)" % (i, items[i].kind))
    return level.make([vals[fi] for fi in range(len(level.fields))])


def run_spec(ex, env, level, items):
    try:
        return ("ok", eval_level(ex, env, level, items, 0, len(items)))
    except Fail as f:
        return ("fail", f.why)
    except Outside:
        return ("outside", None)
